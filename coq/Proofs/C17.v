From Coq Require Import NArith List Bool Arith Lia.
From Verif Require Import Sx Str Tok.
From Verif.Gen Require Import Whitespace Consts.
From Verif.Model Require Import C17.
Import ListNotations.
Local Open Scope N_scope.
Arguments preserved : simpl never.
Arguments collapse : simpl never.

(* ---------- the translated class is exactly HTML's ASCII whitespace ---------- *)
Lemma is_ws_is_space c : is_ws c = is_space c.
Proof.
  unfold is_ws, is_space, spaces_class. cbn [existsb]. rewrite orb_false_r.
  rewrite !orb_assoc. reflexivity.
Qed.

Definition pre_textarea_rawtext : list str :=
  [112; 114; 101] :: [116; 101; 120; 116; 97; 114; 101; 97] :: rcdataElements.

Lemma preserve_set_is_pre_textarea_rawtext :
  forallb (fun n => mem_str n pre_textarea_rawtext) spacePreserveElements = true /\
  forallb (fun n => mem_str n spacePreserveElements) pre_textarea_rawtext = true.
Proof. split; vm_compute; reflexivity. Qed.

(* ---------- collapse ---------- *)
Definition nonspace (s : str) : str := filter (fun c => negb (is_ws c)) s.

Lemma collapse_aux_nonspace b s : nonspace (collapse_aux b s) = nonspace s.
Proof.
  revert b; induction s as [|c r IH]; intro b; cbn [collapse_aux nonspace filter]; [reflexivity|].
  destruct (is_ws c) eqn:E; cbn [negb].
  - destruct b; [apply IH|]. cbn [nonspace filter].
    assert (H32 : is_ws 32 = true) by (rewrite is_ws_is_space; reflexivity).
    rewrite H32. cbn [negb]. apply IH.
  - cbn [filter]. rewrite E. cbn [negb]. f_equal. apply IH.
Qed.

(* no two adjacent whitespace characters, and every whitespace character is U+0020 *)
Fixpoint well_collapsed (prev_ws : bool) (s : str) : bool :=
  match s with
  | [] => true
  | c :: r => if is_ws c then negb prev_ws && (c =? 32) && well_collapsed true r
              else well_collapsed false r
  end.

Lemma collapse_aux_well b s : well_collapsed b (collapse_aux b s) = true.
Proof.
  revert b; induction s as [|c r IH]; intro b; cbn [collapse_aux]; [reflexivity|].
  destruct (is_ws c) eqn:E.
  - destruct b; [apply IH|]. cbn [well_collapsed].
    assert (H32 : is_ws 32 = true) by (rewrite is_ws_is_space; reflexivity).
    rewrite H32. cbn. apply IH.
  - cbn [well_collapsed]. rewrite E. apply IH.
Qed.

Lemma collapse_aux_idem b s : collapse_aux b (collapse_aux b s) = collapse_aux b s.
Proof.
  revert b; induction s as [|c r IH]; intro b; cbn [collapse_aux]; [reflexivity|].
  assert (H32 : is_ws 32 = true) by (rewrite is_ws_is_space; reflexivity).
  destruct (is_ws c) eqn:E.
  - destruct b; [apply IH|]. cbn [collapse_aux]. rewrite H32. f_equal. apply IH.
  - cbn [collapse_aux]. rewrite E. f_equal. apply IH.
Qed.

(* "every maximal run becomes a single space": the run-skipping equation *)
Lemma collapse_aux_true_skip r : collapse_aux true r = collapse_aux false (drop_while is_ws r).
Proof.
  induction r as [|c r IH]; cbn [collapse_aux drop_while]; [reflexivity|].
  destruct (is_ws c) eqn:E; [exact IH|]. cbn [collapse_aux]. rewrite E. reflexivity.
Qed.

Lemma collapse_run_equation c r :
  collapse (c :: r) =
  if is_ws c then 32 :: collapse (drop_while is_ws r) else c :: collapse r.
Proof.
  unfold collapse. cbn [collapse_aux]. destruct (is_ws c); [|reflexivity].
  rewrite collapse_aux_true_skip. reflexivity.
Qed.

(* a text without whitespace runs of length > 1 other than single U+0020 is a fixpoint *)
Lemma collapse_fix b s : well_collapsed b s = true -> collapse_aux b s = s.
Proof.
  revert b; induction s as [|c r IH]; intro b; cbn [collapse_aux well_collapsed]; [reflexivity|].
  destruct (is_ws c) eqn:E.
  - intro H. apply andb_true_iff in H as [H H3]. apply andb_true_iff in H as [H1 H2].
    destruct b; [discriminate|]. apply N.eqb_eq in H2. subst c. f_equal. apply IH. exact H3.
  - intro H. f_equal. apply IH. exact H.
Qed.

(* ---------- the token pass ---------- *)
(* walkers put only whitespace into SpaceCharacters tokens (C11 text split) *)
Definition wf_tok (t : token) : Prop :=
  match t with TSpace s => forallb is_ws s = true | _ => True end.

Lemma nonspace_all_ws s : forallb is_ws s = true -> nonspace s = [].
Proof.
  induction s as [|c r IH]; cbn; [reflexivity|]. intro H. apply andb_true_iff in H as [H1 H2].
  rewrite H1. cbn. apply IH. exact H2.
Qed.

Definition tok_rel (t t' : token) : Prop :=
  match t with
  | TChars s => exists s', t' = TChars s' /\ nonspace s' = nonspace s
  | TSpace s => exists s', t' = TSpace s' /\ nonspace s' = nonspace s /\ (s = [] -> s' = [])
  | _ => t' = t
  end.

Lemma ws_step_rel p t : wf_tok t -> tok_rel t (snd (ws_step p t)).
Proof.
  destruct t; cbn; intro W; try reflexivity.
  - destruct p; cbn; eexists; split; try reflexivity. apply collapse_aux_nonspace.
  - assert (H32 : is_ws 32 = true) by (rewrite is_ws_is_space; reflexivity).
    destruct p, s as [|c s]; unfold ws_step, snd, tok_rel.
    + exists []. repeat split; auto.
    + exists [32]. split; [reflexivity|]. split; [|discriminate].
      rewrite (nonspace_all_ws (c :: s) W). unfold nonspace. cbn [filter]. rewrite H32. reflexivity.
    + exists []. repeat split; auto.
    + exists (c :: s). repeat split; auto.
  - destruct (negb (Nat.eqb p 0) || preserved name); reflexivity.
Qed.

Lemma ws_from_rel ts : forall p, Forall wf_tok ts -> Forall2 tok_rel ts (ws_from p ts).
Proof.
  induction ts as [|t r IH]; intros p W; cbn [ws_from]; constructor.
  - apply ws_step_rel. inversion W; assumption.
  - apply IH. inversion W; assumption.
Qed.

Lemma ws_from_length ts : forall p, length (ws_from p ts) = length ts.
Proof. induction ts as [|t r IH]; intro p; cbn [ws_from length]; [reflexivity | rewrite IH; reflexivity]. Qed.

(* inside a preserve region every token is passed through untouched *)
Lemma ws_step_inside p t : p <> 0%nat -> snd (ws_step p t) = t.
Proof.
  intro H. destruct p as [|p]; [contradiction|]. destruct t; cbn; try reflexivity.
Qed.

(* outside: text is collapsed, a non-empty whitespace token becomes exactly " " *)
Lemma ws_step_outside_chars s : ws_step 0 (TChars s) = (0%nat, TChars (collapse s)).
Proof. reflexivity. Qed.
Lemma ws_step_outside_space c s : ws_step 0 (TSpace (c :: s)) = (0%nat, TSpace [32]).
Proof. reflexivity. Qed.
Lemma ws_step_outside_space_empty : ws_step 0 (TSpace []) = (0%nat, TSpace []).
Proof. reflexivity. Qed.
Lemma collapse_well s : well_collapsed false (collapse s) = true.
Proof. apply collapse_aux_well. Qed.
Lemma collapse_nonspace s : nonspace (collapse s) = nonspace s.
Proof. apply collapse_aux_nonspace. Qed.

(* ---------- the counter is "number of open elements at or below the outermost preserve element" ---------- *)
(* open-element stack, innermost first; EndTag pops blindly, like the filter *)
Definition stack_step (st : list str) (t : token) : list str :=
  match t with
  | TStart _ n _ => n :: st
  | TEnd _ _ => tl st
  | _ => st
  end.

Fixpoint depth_in (st : list str) : nat :=
  match st with
  | [] => 0
  | x :: r => match depth_in r with
              | O => if preserved x then 1 else 0
              | S d => S (S d)
              end
  end.

Lemma depth_in_pos st : (depth_in st <> 0)%nat <-> existsb preserved st = true.
Proof.
  induction st as [|x r IH]; cbn [depth_in existsb]; [split; [congruence | discriminate]|].
  destruct (depth_in r) eqn:E.
  - destruct (preserved x); cbn; [split; [reflexivity | discriminate]|].
    rewrite <- IH. split; congruence.
  - split; [|discriminate]. intros _. apply orb_true_iff. right. apply IH. discriminate.
Qed.

(* counter invariant over any stream, as long as end tags never outnumber start tags so far *)
Lemma ws_counter_step st t :
  (match t with TEnd _ _ => st <> [] | _ => True end) ->
  fst (ws_step (depth_in st) t) = depth_in (stack_step st t).
Proof.
  destruct t; cbn [ws_step stack_step fst]; intro H; try reflexivity.
  - destruct (depth_in st); reflexivity.
  - destruct (depth_in st), s; reflexivity.
  - cbn [depth_in]. destruct (depth_in st) eqn:E; cbn [Nat.eqb negb orb].
    + destruct (preserved name); reflexivity.
    + reflexivity.
  - destruct st as [|x r]; [contradiction|]. cbn [tl depth_in].
    destruct (depth_in r) eqn:E; [destruct (preserved x)|]; reflexivity.
Qed.

(* ---------- idempotence ---------- *)
Lemma ws_step_fst_same p t : fst (ws_step p (snd (ws_step p t))) = fst (ws_step p t).
Proof.
  destruct t; cbn; try reflexivity.
  - destruct p; reflexivity.
  - destruct p, s; reflexivity.
  - destruct (negb (Nat.eqb p 0) || preserved name) eqn:E; cbn; rewrite E; reflexivity.
Qed.

Lemma ws_step_snd_idem p t : snd (ws_step p (snd (ws_step p t))) = snd (ws_step p t).
Proof.
  destruct t; cbn; try reflexivity.
  - destruct p; cbn; [|reflexivity]. unfold collapse. rewrite collapse_aux_idem. reflexivity.
  - destruct p, s; reflexivity.
  - destruct (negb (Nat.eqb p 0) || preserved name) eqn:E; cbn; rewrite E; reflexivity.
Qed.

Lemma ws_from_idem ts : forall p, ws_from p (ws_from p ts) = ws_from p ts.
Proof.
  induction ts as [|t r IH]; intro p; cbn [ws_from]; [reflexivity|].
  rewrite ws_step_snd_idem, ws_step_fst_same, IH. reflexivity.
Qed.

Lemma WS_idempotent ts : WS (WS ts) = WS ts.
Proof. apply ws_from_idem. Qed.

Lemma WS_structure ts : Forall wf_tok ts -> Forall2 tok_rel ts (WS ts).
Proof. apply ws_from_rel. Qed.

Lemma WS_length ts : length (WS ts) = length ts.
Proof. apply ws_from_length. Qed.
