(* C07 -- what each stage of the serializer pipeline may do to the stream (composition of the filter theorems) *)
From Coq Require Import NArith List Bool Permutation.
From Verif Require Import Sx Str Tok.
From Verif.Gen Require Import Serializer.
From Verif.Model Require Import CharRef TokBase Ser C13 C18 C07.
From Verif.Spec Require Import TokSpec.
From Verif.Proofs Require Import C13 C18 C08.
Import ListNotations.
Local Open Scope N_scope.

(* the stream the token loop receives *)
Definition fed (alpha omit : bool) (ts : list token) : list token :=
  (if omit then OT else fun x => x) ((if alpha then AA else fun x => x) ts).

Lemma pipeline_is_ser_of_fed o alpha omit ts : pipeline o alpha omit ts = Ser o (fed alpha omit ts).
Proof. reflexivity. Qed.

Lemma subseq_refl {A} (l : list A) : Subseq l l.
Proof. induction l; constructor; assumption. Qed.

(* omission only removes tokens, never adds or alters one *)
Lemma fed_subseq alpha omit ts : Subseq (fed alpha omit ts) (if alpha then AA ts else ts).
Proof. unfold fed. destruct alpha, omit; try apply OT_subseq; apply subseq_refl. Qed.

(* the order in which serialize() stacks the filters, read off the source by the translator *)
Lemma stack_order :
  map snd filter_stack =
  [[105;110;106;101;99;116;95;109;101;116;97;95;99;104;97;114;115;101;116];
   [97;108;112;104;97;98;101;116;105;99;97;108;97;116;116;114;105;98;117;116;101;115];
   [119;104;105;116;101;115;112;97;99;101];
   [115;97;110;105;116;105;122;101;114];
   [111;112;116;105;111;110;97;108;116;97;103;115]].
Proof. reflexivity. Qed.

Lemma quoting_invisible : forall lt v rest e n a0 an av sc tm o cd b,
  (exists j, sp_iter j (mk_tk attributeValueDoubleQuotedState (flat_map (escq 34 lt) v ++ 34 :: rest)
                              (CTag e n (a0 ++ [(an, av)]) sc) tm o cd b)
             = Some (mk_tk afterAttributeValueState rest (CTag e n (a0 ++ [(an, av ++ map nulfix v)]) sc) tm o cd b)) /\
  (exists j, sp_iter j (mk_tk attributeValueSingleQuotedState (flat_map (escq 39 lt) v ++ 39 :: rest)
                              (CTag e n (a0 ++ [(an, av)]) sc) tm o cd b)
             = Some (mk_tk afterAttributeValueState rest (CTag e n (a0 ++ [(an, av ++ map nulfix v)]) sc) tm o cd b)).
Proof. intros. split; [apply dq_value_roundtrip | apply sq_value_roundtrip]. Qed.
