(* C20 -- fromXmlName (str.replace of every distinct findall item, in ANY order of the set) inverts toXmlName. *)
From Coq Require Import NArith List Bool Lia Arith.
From Verif Require Import Sx Str Tok.
From Verif.Gen Require Import IHateXml.
From Verif.Model Require Import C20.
From Verif.Proofs Require Import C20 C20f.
Import ListNotations.
Local Open Scope N_scope.

(* a partially decoded name: every original character is literal, escaped or already decoded *)
Inductive st := L | E | D.
Definition blk := (N * st)%type.
Definition rb (b : blk) : str := match snd b with E => esc (fst b) | _ => [fst b] end.
Definition render (bs : list blk) : str := flat_map rb bs.
Definition okb (b : blk) : Prop := fst b < 65536.
Definition dec (c0 : N) (b : blk) : blk := match snd b with E => if fst b =? c0 then (fst b, D) else b | _ => b end.

Lemma render_cons b bs : render (b :: bs) = rb b ++ render bs.
Proof. reflexivity. Qed.

Lemma dec_fst c0 bs : map fst (map (dec c0) bs) = map fst bs.
Proof. rewrite map_map. apply map_ext. intros [x [| |]]; unfold dec; cbn; try reflexivity. destruct (x =? c0); reflexivity. Qed.

Lemma dec_ok c0 bs : Forall okb bs -> Forall okb (map (dec c0) bs).
Proof.
  intro H. apply Forall_forall. intros b Hb. apply in_map_iff in Hb as [[x s] [<- Hi]].
  rewrite Forall_forall in H. specialize (H _ Hi). unfold okb, dec in *. cbn in *.
  destruct s; cbn; try exact H. destruct (x =? c0); exact H.
Qed.

(* five pattern characters at the front of a partially decoded name are five pattern characters of the original *)
Lemma hexk_render k : forall bs, hexk k (render bs) = true -> hexk k (map fst bs) = true.
Proof.
  induction k as [|k IH]; intros bs H; [reflexivity|].
  destruct bs as [|[x s] bs]; [exact H|]. rewrite render_cons in H. unfold rb in H. cbn [fst snd map] in *.
  destruct U_facts as [_ [_ U3]].
  destruct s.
  - cbn [app hexk] in *. apply andb_true_iff in H as [H1 H2]. rewrite H1. cbn [andb]. apply IH. exact H2.
  - unfold esc in H. cbn [app hexk] in H. rewrite U3 in H. discriminate.
  - cbn [app hexk] in *. apply andb_true_iff in H as [H1 H2]. rewrite H1. cbn [andb]. apply IH. exact H2.
Qed.

Lemma rf_skip old' new P : forallb (fun y => negb (y =? 85)) P = true ->
  forall fuel rest, replace_fuel (length P + fuel) (85 :: old') new (P ++ rest) = P ++ replace_fuel fuel (85 :: old') new rest.
Proof.
  induction P as [|y P IH]; intros H fuel rest; [reflexivity|].
  cbn [forallb] in H. apply andb_true_iff in H as [Hy HP]. apply negb_true_iff in Hy.
  cbn [length plus app replace_fuel starts_with]. rewrite N.eqb_sym, Hy. cbn [andb]. f_equal. apply IH. exact HP.
Qed.

Lemma pathex_not_U y : pathex y = true -> negb (y =? 85) = true.
Proof.
  intro H. destruct (N.eqb_spec y 85) as [->|]; [|reflexivity].
  destruct U_facts as [_ [_ U3]]. congruence.
Qed.

Lemma esc_inj_dec x c0 : x < 65536 -> c0 < 65536 -> esc x = esc c0 -> x = c0.
Proof.
  intros Hx Hc He.
  destruct (esc_shape x Hx) as [a [b [d [e [f [Es [_ [Hu _]]]]]]]].
  destruct (esc_shape c0 Hc) as [a' [b' [d' [e' [f' [Es' [_ [Hu' _]]]]]]]].
  rewrite Es, Es' in He. injection He as -> -> -> -> ->. congruence.
Qed.

(* one str.replace call: exactly the escaped blocks of c0 are decoded *)
Lemma replace_step c0 : c0 < 65536 -> forall bs, Forall okb bs -> nopat (map fst bs) = true ->
  forall fuel, (length (render bs) <= fuel)%nat ->
  replace_fuel fuel (esc c0) [c0] (render bs) = render (map (dec c0) bs).
Proof.
  intros Hc0. destruct (esc_shape c0 Hc0) as [a0 [b0 [d0 [e0 [f0 [Es0 [Hh0 _]]]]]]].
  induction bs as [|[x s] bs IH]; intros Hok Hn fuel Hf.
  - destruct fuel; reflexivity.
  - inversion Hok as [|? ? Hx Hok']; subst. unfold okb in Hx. cbn [fst] in Hx.
    cbn [map fst nopat] in Hn. apply andb_true_iff in Hn as [Hn1 Hn2]. apply negb_true_iff in Hn1.
    rewrite render_cons in *. cbn [map]. rewrite render_cons.
    assert (LIT : forall fuel, (length (x :: render bs) <= fuel)%nat ->
                  replace_fuel fuel (esc c0) [c0] (x :: render bs) = x :: render (map (dec c0) bs)).
    { intros fu Hfu. cbn [length] in Hfu. destruct fu as [|fu]; [lia|]. cbn [replace_fuel].
      assert (C : starts_with (esc c0) (x :: render bs) = false).
      { destruct (starts_with (esc c0) (x :: render bs)) eqn:Sw; [|reflexivity].
        apply starts_with_app in Sw as [r Hr]. rewrite Es0 in Hr. cbn [app] in Hr. injection Hr as Hx85 Hr.
        subst x. rewrite N.eqb_refl in Hn1. cbn [andb] in Hn1.
        assert (Hk : hexk 5 (render bs) = true).
        { rewrite Hr. change (a0 :: b0 :: d0 :: e0 :: f0 :: r) with ([a0; b0; d0; e0; f0] ++ r). apply hexk_app. exact Hh0. }
        apply hexk_render in Hk. congruence. }
      rewrite C. f_equal. apply IH; [exact Hok' | exact Hn2 | lia]. }
    destruct s; [change (dec c0 (x, L)) with (x, L) | change (dec c0 (x, E)) with (if x =? c0 then (x, D) else (x, E)) | change (dec c0 (x, D)) with (x, D)];
      unfold rb in Hf |- *; cbn [fst snd] in Hf |- *.
    + apply LIT. exact Hf.
    + destruct (esc_shape x Hx) as [a [b [d [e [f [Es [Hh _]]]]]]].
      destruct (N.eqb_spec x c0) as [->|Hne].
      * cbn [fst snd]. rewrite Es0 in *. cbn [app length] in Hf. destruct fuel as [|fuel]; [lia|].
        cbn [app]. cbn [replace_fuel].
        assert (Sw : starts_with [85; a0; b0; d0; e0; f0] (85 :: a0 :: b0 :: d0 :: e0 :: f0 :: render bs) = true)
          by (apply starts_with_app; exists (render bs); reflexivity).
        rewrite Sw. cbn [length skipn app]. f_equal. apply IH; [exact Hok' | exact Hn2 | lia].
      * cbn [fst snd]. rewrite Es in *. cbn [app length] in Hf. destruct fuel as [|fuel]; [lia|].
        cbn [app]. cbn [replace_fuel].
        assert (Sw : starts_with (esc c0) (85 :: a :: b :: d :: e :: f :: render bs) = false).
        { destruct (starts_with (esc c0) (85 :: a :: b :: d :: e :: f :: render bs)) eqn:Sw; [|reflexivity].
          apply starts_with_app in Sw as [r Hr]. rewrite Es0 in Hr. cbn [app] in Hr.
          injection Hr as -> -> -> -> -> _. exfalso. apply Hne. apply esc_inj_dec; [exact Hx | exact Hc0 | congruence]. }
        rewrite Sw. f_equal.
        change (a :: b :: d :: e :: f :: render bs) with ([a; b; d; e; f] ++ render bs).
        change (a :: b :: d :: e :: f :: render (map (dec c0) bs)) with ([a; b; d; e; f] ++ render (map (dec c0) bs)).
        replace fuel with (length [a; b; d; e; f] + (fuel - 5))%nat by (cbn [length]; lia).
        rewrite Es0. rewrite rf_skip.
        -- f_equal. rewrite <- Es0. apply IH; [exact Hok' | exact Hn2 | lia].
        -- cbn [hexk] in Hh. cbn [forallb].
           repeat (apply andb_true_iff in Hh as [?P Hh]).
           rewrite !pathex_not_U by assumption. reflexivity.
    + apply LIT. exact Hf.
Qed.

(* ---------- all replacements, in any order ---------- *)
Definition decI (item : str) : blk -> blk := dec (unesc5 (tl item)).
Definition good_item (item : str) : Prop := exists c, c < 65536 /\ item = esc c /\ unesc5 (tl item) = c.

Lemma fold_replace order : Forall good_item order ->
  forall bs, Forall okb bs -> nopat (map fst bs) = true ->
  fold_left (fun s item => replace_all item [unesc5 (tl item)] s) order (render bs) =
  render (fold_left (fun bs item => map (decI item) bs) order bs).
Proof.
  induction 1 as [|item order [c [Hc [Hi Hu]]] Hgo IH]; intros bs Hok Hn; [reflexivity|].
  cbn [fold_left].
  assert (R : replace_all item [unesc5 (tl item)] (render bs) = render (map (decI item) bs)).
  { unfold decI. rewrite Hu. subst item. unfold replace_all, esc. fold (esc c).
    apply replace_step; [exact Hc | exact Hok | exact Hn | lia]. }
  rewrite R. apply IH; [apply dec_ok; exact Hok | unfold decI; rewrite dec_fst; exact Hn].
Qed.

Lemma fold_pointwise order : forall bs,
  fold_left (fun bs item => map (decI item) bs) order bs = map (fun b => fold_left (fun b item => decI item b) order b) bs.
Proof.
  induction order as [|item order IH]; intros bs; cbn [fold_left]; [symmetry; apply map_id|].
  rewrite IH, map_map. reflexivity.
Qed.

Lemma fold_LD order x s : s <> E -> fold_left (fun b item => decI item b) order (x, s) = (x, s).
Proof.
  intro Hs. induction order as [|item order IH]; [reflexivity|]. cbn [fold_left].
  replace (decI item (x, s)) with (x, s); [exact IH|]. unfold decI, dec. cbn [fst snd]. destruct s; congruence.
Qed.

Lemma fold_E order x : x < 65536 -> In (esc x) order ->
  fold_left (fun b item => decI item b) order (x, E) = (x, D).
Proof.
  intros Hx. induction order as [|item order IH]; intro Hin; [destruct Hin|]. cbn [fold_left].
  unfold decI at 2. unfold dec. cbn [fst snd].
  destruct (N.eqb_spec x (unesc5 (tl item))) as [Heq|Hne].
  - apply fold_LD. discriminate.
  - destruct Hin as [Hi|Hin]; [|apply IH; exact Hin]. exfalso. apply Hne. subst item.
    destruct (esc_shape x Hx) as [a [b [d [e [f [Es [_ [Hu _]]]]]]]]. rewrite Es. cbn [tl]. symmetry. exact Hu.
Qed.

Lemma rb_fold_E order x : x < 65536 -> In (esc x) order ->
  rb (fold_left (fun b item => decI item b) order (x, E)) = [x].
Proof. intros Hx Hin. rewrite fold_E by assumption. reflexivity. Qed.

Lemma In_dedup x l : In x l -> In x (dedup l).
Proof.
  induction l as [|y l IH]; intro H; [exact H|]. cbn [dedup].
  destruct (mem_str y l) eqn:M.
  - destruct H as [->|H]; [apply IH; apply mem_str_In; exact M | apply IH; exact H].
  - destruct H as [->|H]; [left; reflexivity | right; apply IH; exact H].
Qed.
Lemma dedup_In x l : In x (dedup l) -> In x l.
Proof.
  induction l as [|y l IH]; intro H; [exact H|]. cbn [dedup] in H.
  destruct (mem_str y l); [right; apply IH; exact H | destruct H as [->|H]; [left; reflexivity | right; apply IH; exact H]].
Qed.

Definition enc_blk (bad : N -> bool) (x : N) : blk := (x, if bad x then E else L).

Lemma render_enc_rest r : render (map (enc_blk bad_rest) r) = enc_rest r.
Proof.
  induction r as [|x r IH]; [reflexivity|]. cbn [map]. rewrite render_cons, enc_rest_cons, IH.
  unfold rb, enc_blk. cbn [fst snd]. destruct (bad_rest x); reflexivity.
Qed.

Lemma decoded_all order bad r : bmp r ->
  (forall x, In x r -> bad x = true -> In (esc x) order) ->
  render (map (fun b => fold_left (fun b item => decI item b) order b) (map (enc_blk bad) r)) = r.
Proof.
  induction 1 as [|x r Hx Hr IH]; intro Hin; [reflexivity|].
  cbn [map]. rewrite render_cons. rewrite IH by (intros y Hy; apply Hin; right; exact Hy).
  unfold enc_blk at 1. destruct (bad x) eqn:B.
  - rewrite rb_fold_E; [reflexivity | exact Hx | apply Hin; [left; reflexivity | exact B]].
  - rewrite fold_LD by discriminate. reflexivity.
Qed.

(* THE set-order theorem: whatever order the set of matches is iterated in, fromXmlName inverts toXmlName *)
Theorem roundtrip_any_order n r order : bmp n -> nopat n = true -> toXmlName n = Some r ->
  same_set order (dedup (findall r)) = true -> fromXmlName order r = Some n.
Proof.
  intros Hb Hn Ht Hs. unfold fromXmlName. rewrite Hs. f_equal.
  unfold same_set in Hs. apply andb_true_iff in Hs as [Hs _]. apply andb_true_iff in Hs as [Hs1 Hs2].
  rewrite forallb_forall in Hs1, Hs2.
  pose proof (findall_items_decode n r Hb Hn Ht) as Hgood. rewrite Forall_forall in Hgood.
  assert (Hgo : Forall good_item order).
  { apply Forall_forall. intros item Hi. apply Hgood. apply dedup_In. apply mem_str_In. apply Hs1. exact Hi. }
  assert (Hall : forall item, In item (findall r) -> In item order).
  { intros item Hi. apply mem_str_In. apply Hs2. apply In_dedup. exact Hi. }
  rewrite (findall_toxml n r Hb Hn Ht) in Hall.
  destruct n as [|c n]; [discriminate|]. cbn [toXmlName] in Ht. injection Ht as <-.
  inversion Hb as [|? ? Hc Hr]; subst.
  set (bs := enc_blk bad_first c :: map (enc_blk bad_rest) n).
  assert (Hrender : (if bad_first c then esc c else [c]) ++ enc_rest n = render bs).
  { unfold bs. rewrite render_cons, render_enc_rest. unfold rb, enc_blk. cbn [fst snd]. destruct (bad_first c); reflexivity. }
  rewrite Hrender.
  assert (Hok : Forall okb bs).
  { unfold bs. constructor; [exact Hc|]. apply Forall_forall. intros b Hi. apply in_map_iff in Hi as [x [<- Hx]].
    unfold okb, enc_blk. cbn [fst]. rewrite Forall_forall in Hr. apply Hr. exact Hx. }
  assert (Hfst : map fst bs = c :: n).
  { unfold bs. cbn [map enc_blk fst]. f_equal. rewrite map_map. cbn [enc_blk fst]. apply map_id. }
  rewrite fold_replace; [| exact Hgo | exact Hok | rewrite Hfst; exact Hn].
  rewrite fold_pointwise. unfold bs. cbn [map]. rewrite render_cons.
  assert (Hrest : forall x, In x n -> bad_rest x = true -> In (esc x) order).
  { intros x Hx Bx. apply Hall. apply in_or_app. right. apply in_map. apply filter_In. split; assumption. }
  rewrite (decoded_all order bad_rest n Hr Hrest).
  unfold enc_blk. destruct (bad_first c) eqn:B.
  - rewrite rb_fold_E; [reflexivity | exact Hc |]. apply Hall. apply in_or_app. left. left. reflexivity.
  - rewrite fold_LD by discriminate. reflexivity.
Qed.
