(* C02sim_amp -- the steps around a character reference ("&"), using Proofs/C02charref.v. *)
From Coq Require Import NArith List Bool Arith Lia ZifyBool ZifyN.
From Verif Require Import Sx Str.
From Verif.Gen Require Import Entities Tokenizer.
From Verif.Model Require Import CharRef TokBase TokHand C02.
From Verif.Spec Require Import CharRef TokSpec.
From Verif.Proofs Require Import C14 C02a C02dict C08 C02charref C02sim C02simtac.
Import ListNotations.
Local Open Scope N_scope.

Lemma amp_next_spec i : match i with 38 :: _ => true | _ => false end = true -> exists r, i = 38 :: r.
Proof.
  destruct i as [|x r]; [discriminate|]. intro H. exists r. f_equal.
  destruct x as [|p]; [discriminate H|].
  do 6 (destruct p as [p|p|]; try discriminate H). reflexivity.
Qed.

Ltac amp_pre name :=
  intros m s HR Hst Hwk Hamp;
  destruct m as [ms mi mc mt mo mcd mb]; destruct s as [ss si sc st' so scd sb];
  unfold R, sst, sinp in HR; cbn [st inp cur tmp out cdata_ok bad] in *;
  destruct HR as (Hs & Hi & Ht & Ho & Hcd & Hb & Hsb & Hc); subst; cbv beta iota;
  eval_eqb; prep_cur; prep_wk; prep_attrs; cbn [ncur] in *; eval_eqb; autorewrite with simdb;
  unfold amp_next in Hamp; cbn [inp] in Hamp;
  apply amp_next_spec in Hamp; destruct Hamp as [r ->];
  unfold name;
  cbv beta iota zeta delta [peek hd_error advance tl deq din is_eof dstr unget];
  cbn [inp st cur tmp out cdata_ok bad andb orb negb]; eval_ground; cbv beta iota.

Ltac zero_steps :=
  unfold simok; cbn [fst snd]; m_norm; (split; [reflexivity|]); (split; [first [reflexivity | assumption]|]); side2;
  exists 0%nat; eexists; (split; [reflexivity|]); r_solve.

Lemma sim_dataState_amp : forall m s, R m s -> st m = dataState -> wk m = true -> amp_next m = true -> simok s (step_dataState m).
Proof. amp_pre step_dataState; zero_steps. Qed.
Lemma sim_rcdataState_amp : forall m s, R m s -> st m = rcdataState -> wk m = true -> amp_next m = true -> simok s (step_rcdataState m).
Proof. amp_pre step_rcdataState; zero_steps. Qed.
Lemma sim_beforeAttributeValueState_amp : forall m s, R m s -> st m = beforeAttributeValueState -> wk m = true -> amp_next m = true ->
  simok s (step_beforeAttributeValueState m).
Proof. amp_pre step_beforeAttributeValueState. all: leaf_sim. Qed.

(* ---- the reference itself, in text ---- *)
Lemma fold_errs_spec errs : forall k, fold_left (fun k e => emit (OErr e) k) errs k = set_out (rev (map OErr errs) ++ out k) k.
Proof.
  induction errs as [|e l IH]; intro k; cbn [fold_left map rev app].
  - destruct k; reflexivity.
  - rewrite IH. unfold emit. cbn [set_out out st inp cur tmp cdata_ok bad]. rewrite <- app_assoc. reflexivity.
Qed.
Lemma flatr_errs l o : flatr (rev (map OErr l) ++ o) = flatr o.
Proof.
  unfold flatr. rewrite flat_map_app. replace (flat_map (fun t => rev (flat_tok t)) (rev (map OErr l))) with (@nil otok); [reflexivity|].
  induction l as [|e l IH]; [reflexivity|]. cbn [map rev]. rewrite flat_map_app. rewrite <- IH. reflexivity.
Qed.
Lemma singles_r_app a b : singles_r (a ++ b) = singles_r b ++ singles_r a.
Proof. unfold singles_r. rewrite map_app, rev_app_distr. reflexivity. Qed.

Lemma name_char_text c : name_char c = true -> (c =? 38) = false /\ (c =? 60) = false /\ (c =? 0) = false.
Proof. unfold name_char, is_alnum, is_alpha, is_upper, is_lower, is_digit. lia. Qed.

Lemma text_charref X i cu t o cd : X = dataState \/ X = rcdataState ->
  exists j, sp_iter j (mk_tk X (38 :: i) cu t o cd false)
            = Some (mk_tk X (snd (consume_entity None false i)) cu t (singles_r (fst (fst (consume_entity None false i))) ++ o) cd false).
Proof.
  intro HX. destruct (charref_agree None false i eq_refl) as (extra & Hout & Hrest & Hex).
  exists (1 + length extra)%nat.
  assert (H1 : sp_step (mk_tk X (38 :: i) cu t o cd false) = (charref_text (mk_tk X i cu t o cd false), true))
    by (destruct HX; subst X; reflexivity).
  erewrite sp_iter_app; [|cbn [sp_iter]; rewrite H1; reflexivity].
  unfold charref_text. cbn [inp]. destruct (spec_charref false i) as [so srest]. cbn [fst snd] in *.
  rewrite emits_spec. cbv beta iota zeta delta [set_inp set_out]. cbn [st inp cur tmp out cdata_ok bad].
  rewrite Hrest, Hout.
  rewrite (batch_emit X name_char); [rewrite singles_r_app, <- app_assoc; reflexivity | | exact Hex].
  intros c r cu' t' o' cd' Hc. destruct (name_char_text c Hc) as (H38 & H60 & H0).
  destruct HX; subst X; unfold sp_step; cbv beta iota zeta delta [peek]; cbn [st inp hd_error]; unfold nulfix; rewrite ?H38, ?H60, ?H0; reflexivity.
Qed.

Lemma consume_entity_data_spec k :
  let r := consume_entity None false (inp k) in
  inp (consume_entity_data k) = snd r /\ st (consume_entity_data k) = st k /\ cur (consume_entity_data k) = cur k /\
  tmp (consume_entity_data k) = tmp k /\ cdata_ok (consume_entity_data k) = cdata_ok k /\ bad (consume_entity_data k) = bad k /\
  flatr (out (consume_entity_data k)) = singles_r (fst (fst r)) ++ flatr (out k).
Proof.
  unfold consume_entity_data, consume_entity_k. destruct (consume_entity None false (inp k)) as [[o e] rest]. cbn [fst snd].
  rewrite fold_errs_spec.
  assert (H : forall t, (t = OChars o \/ t = OSpace o) ->
     let k' := emit t (set_out (rev (map OErr e) ++ out (set_inp rest k)) (set_inp rest k)) in
     inp k' = rest /\ st k' = st k /\ cur k' = cur k /\ tmp k' = tmp k /\ cdata_ok k' = cdata_ok k /\ bad k' = bad k /\
     flatr (out k') = singles_r o ++ flatr (out k)).
  { intros t Ht. destruct k as [a1 a2 a3 a4 a5 a6 a7]. cbv beta iota zeta delta [emit set_out set_inp]. cbn [st inp cur tmp out cdata_ok bad]. repeat split.
    rewrite flatr_cons, flatr_errs. destruct Ht; subst t; reflexivity. }
  destruct o as [|c [|c2 o']]; try (apply H; left; reflexivity).
  destruct (is_space c); apply H; [right|left]; reflexivity.
Qed.

Lemma sim_text_ref X Y (step_fn : tk -> tk * bool) :
  (X = dataState /\ Y = entityDataState \/ X = rcdataState /\ Y = characterReferenceInRcdata) ->
  (forall k, step_fn k = (set_st X (consume_entity_data k), true)) ->
  forall m s, R m s -> st m = Y -> wk m = true -> simok s (step_fn m).
Proof.
  intros HXY Hfn m s HR Hst Hwk. rewrite Hfn.
  destruct (consume_entity_data_spec m) as (Hi & _ & Hcur & Htmp & Hcd & Hbad & Hout).
  destruct HR as (Hs & Hsi & Ht & Ho & Hscd & Hb & Hsb & Hc).
  destruct s as [ss si sc st' so scd sb]. cbn [st inp cur tmp out cdata_ok bad] in *.
  assert (HX : X = dataState \/ X = rcdataState) by tauto.
  destruct (text_charref X (inp m) sc st' so scd HX) as [j Hj].
  assert (Ess : ss = X /\ si = 38 :: inp m).
  { unfold sst, sinp in *. rewrite Hst in *. destruct HXY as [[-> ->]|[-> ->]]; split; assumption. }
  destruct Ess as [-> ->]. subst sb.
  unfold simok. cbn [fst snd]. unfold set_st. cbn [bad]. split; [congruence|]. split.
  { unfold wk in *. cbn [st cur tmp]. rewrite Hcur. rewrite Hst in Hwk. destruct HXY as [[-> ->]|[-> ->]]; [reflexivity|exact Hwk]. }
  split; [cbn [cdata_ok]; congruence|].
  split; [unfold covered; cbn [st]; destruct HXY as [[-> _]|[-> _]]; intro Hcv; discriminate Hcv|].
  exists j. eexists. split; [exact Hj|].
  rewrite Hst in Hc. clear HX Hj.
  destruct HXY as [[-> ->]|[-> ->]]; unfold R, sst, sinp; cbn [st inp cur tmp out cdata_ok bad]; cbv beta iota;
    rewrite Hi, Htmp, Hcd, Hbad, Hout, Hcur, Ho; cbn in Hc |- *; (repeat split; try congruence); [left; reflexivity|].
  right. destruct Hc as [Hc|Hc]; [discriminate Hc|]. rewrite Hc. destruct (cur m); reflexivity.
Qed.

Lemma sim_entityDataState_ref : forall m s, R m s -> st m = entityDataState -> wk m = true -> simok s (step_entityDataState m).
Proof. apply (sim_text_ref dataState entityDataState); [left; split; reflexivity | reflexivity]. Qed.
Lemma sim_characterReferenceInRcdata_ref : forall m s, R m s -> st m = characterReferenceInRcdata -> wk m = true ->
  simok s (step_characterReferenceInRcdata m).
Proof. apply (sim_text_ref rcdataState characterReferenceInRcdata); [right; split; reflexivity | reflexivity]. Qed.

(* ---- the reference inside an attribute value ---- *)
Definition av_state (X : tstate) (q : N) : Prop :=
  (X = attributeValueDoubleQuotedState /\ q = 34) \/ (X = attributeValueSingleQuotedState /\ q = 39) \/
  (X = attributeValueUnQuotedState /\ q = 62).

Lemma name_char_attr c : name_char c = true ->
  (c =? 38) = false /\ (c =? 34) = false /\ (c =? 39) = false /\ (c =? 0) = false /\ (c =? 62) = false /\ is_space c = false.
Proof. unfold name_char, is_alnum, is_alpha, is_upper, is_lower, is_digit, is_space. lia. Qed.

Lemma attr_charref X q i e n a0 an av sc t o cd : av_state X q ->
  exists j, sp_iter j (mk_tk X (38 :: i) (CTag e n (a0 ++ [(an, av)]) sc) t o cd false)
            = Some (mk_tk X (snd (consume_entity (Some q) true i))
                      (CTag e n (a0 ++ [(an, av ++ fst (fst (consume_entity (Some q) true i)))]) sc) t o cd false).
Proof.
  intro HX.
  assert (Hq : ok_allowed (Some q) = true) by (destruct HX as [[_ ->]|[[_ ->]|[_ ->]]]; reflexivity).
  destruct (charref_agree (Some q) true i Hq) as (extra & Hout & Hrest & Hex).
  exists (1 + length extra)%nat.
  assert (H1 : sp_step (mk_tk X (38 :: i) (CTag e n (a0 ++ [(an, av)]) sc) t o cd false)
               = (charref_attr (mk_tk X i (CTag e n (a0 ++ [(an, av)]) sc) t o cd false), true))
    by (destruct HX as [[-> _]|[[-> _]|[-> _]]]; reflexivity).
  erewrite sp_iter_app; [|cbn [sp_iter]; rewrite H1; reflexivity].
  unfold charref_attr. cbn [inp]. destruct (spec_charref true i) as [so srest]. cbn [fst snd] in *.
  unfold set_inp. cbn [st inp cur tmp out cdata_ok bad]. rewrite attr_val_app_snoc.
  rewrite Hrest, Hout.
  rewrite (batch_val X name_char); [rewrite <- app_assoc; reflexivity | | exact Hex].
  intros c r e' n' a0' an' av' sc' t' o' cd' Hc. destruct (name_char_attr c Hc) as (H38 & H34 & H39 & H0 & H62 & Hsp).
  destruct HX as [[-> _]|[[-> _]|[-> _]]]; unfold sp_step; cbv beta iota zeta delta [peek]; cbn [st inp hd_error];
    rewrite ?H38, ?H34, ?H39, ?H62, ?Hsp; unfold nulfix; rewrite H0;
    cbv beta iota zeta delta [advance set_inp]; cbn [st inp cur tmp out cdata_ok bad tl]; rewrite attr_val_app_snoc; reflexivity.
Qed.

Lemma process_entity_spec q i s e n a0 an av sc t o cd :
  let r := consume_entity (Some q) true i in
  exists errs,
  process_entity_in_attribute q (mk_tk s i (CTag e n (a0 ++ [(an, av)]) sc) t o cd false)
  = mk_tk s (snd r) (CTag e n (a0 ++ [(an, av ++ fst (fst r))]) sc) t (rev (map OErr errs) ++ o) cd false.
Proof.
  unfold process_entity_in_attribute, consume_entity_k. cbn [inp].
  destruct (consume_entity (Some q) true i) as [[ou er] rest]. cbn [fst snd]. exists er.
  rewrite fold_errs_spec. cbv beta iota zeta delta [set_inp set_out]. cbn [st inp cur tmp out cdata_ok bad].
  rewrite attr_val_app_snoc. reflexivity.
Qed.

Lemma sim_av_amp X q (step_fn : tk -> tk * bool) : av_state X q ->
  (forall r c t o cd, step_fn (mk_tk X (38 :: r) c t o cd false) = (process_entity_in_attribute q (mk_tk X r c t o cd false), true)) ->
  forall m s, R m s -> st m = X -> wk m = true -> amp_next m = true -> simok s (step_fn m).
Proof.
  intros HX Hfn m s HR Hst Hwk Hamp.
  destruct m as [ms mi mc mt mo mcd mb]; destruct s as [ss si sc st' so scd sb].
  unfold amp_next in Hamp; cbn [inp] in Hamp. apply amp_next_spec in Hamp. destruct Hamp as [r ->].
  cbn [st] in Hst. subst ms.
  assert (Hwk' : has_attr mc = true) by (destruct HX as [[-> _]|[[-> _]|[-> _]]]; exact Hwk).
  destruct mc as [| e n a scf | |]; try discriminate Hwk'.
  destruct a as [|p0 a']; [discriminate Hwk'|].
  destruct (exists_last_pairs (p0 :: a') ltac:(discriminate)) as (a0 & an & av & Ea). rewrite Ea in *. clear Ea Hwk'.
  assert (HRR : ss = X /\ si = 38 :: r /\ st' = mt /\ so = flatr mo /\ scd = mcd /\ mb = false /\ sb = false /\
                sc = CTag e (lower_str n) (a0 ++ [(an, av)]) scf).
  { unfold R, sst, sinp in HR. cbn [st inp cur tmp out cdata_ok bad] in HR.
    destruct HX as [[-> _]|[[-> _]|[-> _]]]; cbn in HR; destruct HR as (? & ? & ? & ? & ? & ? & ? & [Hd|Hd]); try discriminate Hd; repeat split; assumption. }
  destruct HRR as (-> & -> & -> & -> & -> & -> & -> & ->).
  rewrite Hfn.
  destruct (process_entity_spec q r X e n a0 an av scf mt mo mcd) as [errs Hp]. cbv zeta in Hp. rewrite Hp.
  destruct (attr_charref X q r e (lower_str n) a0 an av scf mt (flatr mo) mcd HX) as [j Hj].
  unfold simok. cbn [fst snd bad]. split; [reflexivity|]. split.
  { unfold wk. cbn [st cur tmp]. destruct HX as [[-> _]|[[-> _]|[-> _]]]; apply has_attr_snoc. }
  split; [reflexivity|].
  split; [unfold covered; cbn [st]; destruct HX as [[-> _]|[[-> _]|[-> _]]]; intro Hcv; discriminate Hcv|].
  exists j. eexists. split; [exact Hj|].
  unfold R, sst, sinp. cbn [st inp cur tmp out cdata_ok bad]. rewrite flatr_errs.
  destruct HX as [[-> _]|[[-> _]|[-> _]]]; cbn; repeat split; right; reflexivity.
Qed.

Lemma sim_attributeValueDoubleQuotedState_amp : forall m s, R m s -> st m = attributeValueDoubleQuotedState -> wk m = true ->
  amp_next m = true -> simok s (step_attributeValueDoubleQuotedState m).
Proof. apply (sim_av_amp _ 34); [left; split; reflexivity | reflexivity]. Qed.
Lemma sim_attributeValueSingleQuotedState_amp : forall m s, R m s -> st m = attributeValueSingleQuotedState -> wk m = true ->
  amp_next m = true -> simok s (step_attributeValueSingleQuotedState m).
Proof. apply (sim_av_amp _ 39); [right; left; split; reflexivity | reflexivity]. Qed.
Lemma sim_attributeValueUnQuotedState_amp : forall m s, R m s -> st m = attributeValueUnQuotedState -> wk m = true ->
  amp_next m = true -> simok s (step_attributeValueUnQuotedState m).
Proof. apply (sim_av_amp _ 62); [right; right; split; reflexivity | reflexivity]. Qed.
