(* C11e -- the ElementTree walker's cursor arithmetic (Model/C11.v: enrw over (element, key, parents, flag) cursors on
   the .text/.tail representation) emits exactly the recursive walk of that representation, for EVERY tree. *)
From Coq Require Import NArith List Bool Arith Lia.
From Verif Require Import Sx Str Tok Tree.
From Verif.Gen Require Import Consts Sax.
From Verif.Model Require Import C11.
Import ListNotations.
Local Open Scope N_scope.

(* the reference: a plain recursion over the representation *)
Definition e_hasc (t : str) (kids : list (enode * str)) : bool :=
  negb (Nat.eqb (length kids) 0) || negb (match t with [] => true | _ => false end).
Fixpoint ewalk_ref (e : enode) : list token :=
  match e with
  | EEl ns name a t kids =>
      if is_voidH ns name then TEmpty ns name a :: (if e_hasc t kids then [TSerErr void_msg] else [])
      else TStart ns name a :: text_tokens t ++
           flat_map (fun kt => ewalk_ref (fst kt) ++ text_tokens (snd kt)) kids ++ [TEnd ns name]
  | ECo s => [TComment s]
  | EDo n p s => [TDoctype n p s]
  end.
Definition kids_ref (kids : list (enode * str)) : list token :=
  flat_map (fun kt => ewalk_ref (fst kt) ++ text_tokens (snd kt)) kids.

Definition is_nil {T} (l : list T) : bool := match l with [] => true | _ => false end.
(* the exact number of steps: 2 per node, 2 per non-empty text and per non-empty tail *)
Definition tcost (s : str) : nat := if is_nil s then 0%nat else 2%nat.
Fixpoint esize (e : enode) : nat :=
  match e with
  | EEl _ _ _ t kids => (2 + tcost t + fold_right (fun kt acc => esize (fst kt) + tcost (snd kt) + acc) O kids)%nat
  | _ => 2%nat
  end.
Definition ksize (kids : list (enode * str)) : nat :=
  fold_right (fun kt acc => esize (fst kt) + tcost (snd kt) + acc)%nat O kids.

Lemma enode_ind' (P : enode -> Prop)
  (HEl : forall ns name a t kids, Forall (fun kt => P (fst kt)) kids -> P (EEl ns name a t kids))
  (HCo : forall s, P (ECo s)) (HDo : forall n p s, P (EDo n p s)) : forall e, P e.
Proof.
  fix IH 1. intro e. destruct e as [ns name a t kids|s|n p s]; [|apply HCo|apply HDo].
  apply HEl. induction kids as [|[k tl] r IHr]; [constructor|]. constructor; [apply IH|exact IHr].
Qed.

(* cursors *)
Definition cur (e : enode) (tl : str) (key : nat) (ps : list pframe) : ecur2 :=
  {| e2_elt := e; e2_tail := tl; e2_key := key; e2_parents := ps; e2_flag := FNone; e2_bare := is_nil ps |}.

(* what follows the close tokens of a cursor *)
Definition ekont (f : nat) (isdoc : bool) (c : ecur2) : option (list token) :=
  if e2_bare c then Some []
  else match e2_next c with
       | Some s => enrw f isdoc (EOpen s)
       | None => match e2_parent c with
                 | Some p => enrw f isdoc (EClose p)
                 | None => Some []
                 end
       end.

Lemma omap_app {T} (a b : list T) x : option_map (app a) (option_map (app b) x) = option_map (app (a ++ b)) x.
Proof. destruct x; cbn; [rewrite app_assoc|]; reflexivity. Qed.
Lemma omap_nil {T} (x : option (list T)) : option_map (app []) x = x.
Proof. destruct x; reflexivity. Qed.

Lemma enrw_close f isdoc c : isdoc && e2_bare c = false ->
  enrw (S f) isdoc (EClose c) = option_map (app (e2_close c)) (ekont f isdoc c).
Proof. intro H. cbn [enrw]. rewrite H. reflexivity. Qed.
Lemma enrw_open f isdoc c : isdoc && e2_bare c = false ->
  enrw (S f) isdoc (EOpen c) =
  option_map (app (fst (e2_open c)))
    (match (if snd (e2_open c) then e2_first c else None) with
     | Some k => enrw f isdoc (EOpen k)
     | None => enrw f isdoc (EClose c)
     end).
Proof. intro H. cbn [enrw]. rewrite H. destruct (e2_open c). reflexivity. Qed.

(* a text or tail cursor: its text, then on *)
Lemma text_cursor f isdoc e tl key ps :
  enrw (S (S f)) isdoc (EOpen {| e2_elt := e; e2_tail := tl; e2_key := key; e2_parents := ps; e2_flag := FText; e2_bare := false |})
  = option_map (app (text_tokens (e_text e)))
      (ekont f isdoc {| e2_elt := e; e2_tail := tl; e2_key := key; e2_parents := ps; e2_flag := FText; e2_bare := false |}).
Proof.
  rewrite enrw_open by (cbn; apply andb_false_r). cbn [e2_open e_open c_flag fst snd e2_flag e2_elt c_elt].
  rewrite enrw_close by (cbn; apply andb_false_r). cbn [e2_close e_close c_flag e2_flag]. rewrite omap_nil. reflexivity.
Qed.
Lemma tail_cursor f isdoc e tl key ps :
  enrw (S (S f)) isdoc (EOpen {| e2_elt := e; e2_tail := tl; e2_key := key; e2_parents := ps; e2_flag := FTail; e2_bare := false |})
  = option_map (app (text_tokens tl))
      (ekont f isdoc {| e2_elt := e; e2_tail := tl; e2_key := key; e2_parents := ps; e2_flag := FTail; e2_bare := false |}).
Proof.
  rewrite enrw_open by (cbn; apply andb_false_r). cbn [e2_open e_open c_flag fst snd e2_flag e2_tail c_tail].
  rewrite enrw_close by (cbn; apply andb_false_r). cbn [e2_close e_close c_flag e2_flag]. rewrite omap_nil. reflexivity.
Qed.

(* Pe e: from "about to open e" (as a child, or as the non-document root) the traversal emits ewalk_ref e and goes on *)
Definition Pe (e : enode) : Prop :=
  forall isdoc tl key ps, isdoc && is_nil ps = false ->
  exists n, (n <= esize e)%nat /\
    forall k, enrw (n + k) isdoc (EOpen (cur e tl key ps)) = option_map (app (ewalk_ref e)) (ekont k isdoc (cur e tl key ps)).

Lemma leaf_open isdoc e tl key ps toks : isdoc && is_nil ps = false ->
  e2_open (cur e tl key ps) = (toks, false) ->
  forall k, enrw (2 + k) isdoc (EOpen (cur e tl key ps)) = option_map (app (toks ++ e2_close (cur e tl key ps))) (ekont k isdoc (cur e tl key ps)).
Proof.
  intros Hd Ho k. change (2 + k)%nat with (S (S k)). rewrite enrw_open by exact Hd. rewrite Ho. cbn [fst snd].
  rewrite enrw_close by exact Hd. rewrite omap_app. reflexivity.
Qed.

Lemma enrw_open_docroot f c : e2_bare c = true ->
  enrw (S f) true (EOpen c) = match e2_first c with Some k => enrw f true (EOpen k) | None => enrw f true (EClose c) end.
Proof. intro H. cbn [enrw]. rewrite H. cbn [andb]. apply omap_nil. Qed.
Lemma enrw_close_docroot f c : e2_bare c = true -> enrw (S f) true (EClose c) = Some [].
Proof. intro H. cbn [enrw]. rewrite H. reflexivity. Qed.

Lemma skipn_skipn'' {A} (a b : nat) (l : list A) : skipn a (skipn b l) = skipn (a + b) l.
Proof.
  revert l; induction b as [|b IH]; intro l; [rewrite Nat.add_0_r; reflexivity|].
  destruct l as [|x l]; [rewrite !skipn_nil; reflexivity|]. rewrite Nat.add_succ_r. cbn [skipn]. apply IH.
Qed.
Lemma nth_error_Some_lt {A} (l : list A) i x : nth_error l i = Some x -> (i < length l)%nat.
Proof. intro H. apply nth_error_Some. rewrite H. discriminate. Qed.

Opaque enrw.

Definition frs (pe : enode) (ptl : str) (pkey : nat) (ps : list pframe) : list pframe :=
  {| p_elt := pe; p_tail := ptl; p_key := pkey |} :: ps.

(* after child number i (cursor c_i, closed): its tail, then the next child or back to the parent *)
Lemma children_walk isdoc pe ptl pkey ps (pkids : list (enode * str)) :
  e_kids pe = pkids ->
  forall right i k0 tl0, nth_error pkids i = Some (k0, tl0) -> skipn (S i) pkids = right ->
  Forall (fun kt => Pe (fst kt)) ((k0, tl0) :: right) ->
  exists n, (n <= ksize ((k0, tl0) :: right))%nat /\
    forall k, enrw (n + k) isdoc (EOpen (cur k0 tl0 i (frs pe ptl pkey ps)))
              = option_map (app (kids_ref ((k0, tl0) :: right))) (enrw k isdoc (EClose (cur pe ptl pkey ps))).
Proof.
  intros Hk. induction right as [|[k1 tl1] rs IH]; intros i k0 tl0 Hn Hs HF.
  - inversion HF as [|? ? Hc _]; subst. cbn [fst] in Hc.
    destruct (Hc isdoc tl0 i (frs pe ptl pkey ps)) as [n [Hb He]]; [cbn; apply andb_false_r|].
    assert (Hnext : nth_error (e_kids pe) (S i) = None).
    { apply nth_error_None. assert (length (skipn (S i) (e_kids pe)) = 0)%nat by (rewrite Hs; reflexivity).
      rewrite skipn_length in H. lia. }
    destruct tl0 as [|t0 tl0'].
    + exists n. split; [cbn [ksize fold_right length fst snd tcost is_nil] in *; lia|]. intro k. rewrite He.
      unfold ekont. unfold frs; cbn [cur e2_bare is_nil e2_next e2_flag e2_tail e2_parents nth_kid p_elt e2_key].
      unfold nth_kid; rewrite Hnext. cbn [e2_parent e2_flag e2_parents p_elt p_tail p_key].
      unfold kids_ref. cbn [flat_map fst snd]. rewrite !app_nil_r. reflexivity.
    + exists (n + 2)%nat. split; [cbn [ksize fold_right length fst snd tcost is_nil] in *; lia|]. intro k.
      rewrite <- Nat.add_assoc, He. unfold ekont at 1.
      unfold frs; cbn [cur e2_bare is_nil e2_next e2_flag e2_tail e2_parents e2_elt e2_key].
      change (2 + k)%nat with (S (S k)). rewrite tail_cursor. rewrite omap_app.
      unfold ekont. cbn [e2_bare e2_next e2_flag e2_tail e2_parents nth_kid p_elt e2_key].
      unfold nth_kid; rewrite Hnext. cbn [e2_parent e2_flag e2_parents p_elt p_tail p_key].
      unfold kids_ref. cbn [flat_map fst snd]. rewrite !app_nil_r. reflexivity.
  - inversion HF as [|? ? Hc Hrest]; subst. cbn [fst] in Hc.
    destruct (Hc isdoc tl0 i (frs pe ptl pkey ps)) as [n1 [Hb1 He1]]; [cbn; apply andb_false_r|].
    assert (Hnext : nth_error (e_kids pe) (S i) = Some (k1, tl1)).
    { rewrite <- (firstn_skipn (S i) (e_kids pe)) at 1. rewrite Hs.
      assert (Hl : length (firstn (S i) (e_kids pe)) = S i).
      { apply firstn_length_le. apply nth_error_Some_lt in Hn. lia. }
      rewrite nth_error_app2 by lia. rewrite Hl, Nat.sub_diag. reflexivity. }
    assert (Hs' : skipn (S (S i)) (e_kids pe) = rs).
    { replace (S (S i)) with (1 + S i)%nat by lia. rewrite <- skipn_skipn'', Hs. reflexivity. }
    destruct (IH (S i) k1 tl1 Hnext Hs' Hrest) as [n2 [Hb2 He2]].
    destruct tl0 as [|t0 tl0'].
    + exists (n1 + n2)%nat. split; [cbn [ksize fold_right length fst snd tcost is_nil] in *; lia|]. intro k.
      rewrite <- Nat.add_assoc, He1. unfold ekont.
      unfold frs; cbn [cur e2_bare is_nil e2_next e2_flag e2_tail e2_parents nth_kid p_elt e2_key].
      unfold nth_kid; rewrite Hnext. fold (frs pe ptl pkey ps); fold (cur k1 tl1 (S i) (frs pe ptl pkey ps)). rewrite He2, omap_app.
      unfold kids_ref. cbn [flat_map fst snd]. rewrite !app_nil_r, <- ?app_assoc. reflexivity.
    + exists (n1 + (2 + n2))%nat. split; [cbn [ksize fold_right length fst snd tcost is_nil] in *; lia|]. intro k.
      rewrite <- Nat.add_assoc, He1. unfold ekont at 1.
      unfold frs; cbn [cur e2_bare is_nil e2_next e2_flag e2_tail e2_parents e2_elt e2_key].
      replace (2 + n2 + k)%nat with (S (S (n2 + k))) by lia. rewrite tail_cursor. rewrite omap_app.
      unfold ekont. cbn [e2_bare e2_next e2_flag e2_tail e2_parents nth_kid p_elt e2_key].
      unfold nth_kid; rewrite Hnext. fold (frs pe ptl pkey ps); fold (cur k1 tl1 (S i) (frs pe ptl pkey ps)). rewrite He2, omap_app.
      unfold kids_ref. cbn [flat_map fst snd]. rewrite <- !app_assoc. reflexivity.
Qed.

Lemma first_child_cursor e tl key ps k0 tl0 :
  {| e2_elt := k0; e2_tail := tl0; e2_key := 0;
     e2_parents := {| p_elt := e; p_tail := tl; p_key := key |} :: ps; e2_flag := FNone; e2_bare := false |}
  = cur k0 tl0 0 (frs e tl key ps).
Proof. reflexivity. Qed.

Lemma Pe_all e : Pe e.
Proof.
  induction e as [ns name a t kids IH | s | dn dp ds] using enode_ind'; intros isdoc tl key ps Hd.
  - destruct (is_voidH ns name) eqn:V.
    + exists 2%nat. split; [cbn [esize tcost is_nil fold_right]; lia|]. intro k.
      rewrite (leaf_open isdoc _ tl key ps (TEmpty ns name a :: (if e_hasc t kids then [TSerErr void_msg] else [])) Hd).
      * cbn [e2_close e_close cur c_flag e2_flag c_elt e2_elt]. rewrite V, app_nil_r. cbn [ewalk_ref]. rewrite V. reflexivity.
      * cbn [e2_open e_open cur c_flag e2_flag c_elt e2_elt]. rewrite V. reflexivity.
    + destruct kids as [|[k0 tl0] right].
      * destruct t as [|t0 t'].
        -- exists 2%nat. split; [cbn [esize tcost is_nil fold_right]; lia|]. intro k.
           rewrite (leaf_open isdoc _ tl key ps [TStart ns name a] Hd).
           ++ cbn [e2_close e_close cur c_flag e2_flag c_elt e2_elt]. rewrite V. cbn [ewalk_ref flat_map]. rewrite V. reflexivity.
           ++ cbn [e2_open e_open cur c_flag e2_flag c_elt e2_elt]. rewrite V. reflexivity.
        -- (* text only *)
           exists 4%nat. split; [cbn [esize tcost is_nil fold_right]; lia|]. intro k. change (4 + k)%nat with (S (S (S (S k)))).
           rewrite enrw_open by exact Hd. cbn [e2_open e_open cur c_flag e2_flag c_elt e2_elt]. rewrite V.
           cbn [length Nat.eqb negb orb fst snd e2_first cur e2_flag e2_elt e_text e2_tail e2_key e2_parents].
           rewrite text_cursor. cbn [e_text]. rewrite omap_app.
           unfold ekont at 1. cbn [e2_bare e2_next e2_flag e_kids e2_elt e2_parent e2_tail e2_key e2_parents].
           fold (cur (EEl ns name a (t0 :: t') []) tl key ps).
           rewrite enrw_close by exact Hd. rewrite omap_app.
           cbn [e2_close e_close cur c_flag e2_flag c_elt e2_elt]. rewrite V. cbn [ewalk_ref flat_map]. rewrite V.
           rewrite <- app_assoc. reflexivity.
      * set (e := EEl ns name a t ((k0, tl0) :: right)).
        destruct (children_walk isdoc e tl key ps ((k0, tl0) :: right) eq_refl right 0%nat k0 tl0 eq_refl eq_refl IH)
          as [n' [Hn' Hk']].
        destruct t as [|t0 t'].
        -- exists (S (n' + 1)). split.
           { unfold e. cbn [esize ksize fold_right length fst snd tcost is_nil] in *. lia. }
           intro k. replace (S (n' + 1) + k)%nat with (S (n' + S k)) by lia.
           rewrite enrw_open by exact Hd. unfold e. cbn [e2_open e_open cur c_flag e2_flag c_elt e2_elt]. rewrite V.
           cbn [length Nat.eqb negb orb fst snd e2_first cur e2_flag e2_elt e_text e_kids e2_tail e2_key e2_parents].
           rewrite first_child_cursor. fold e. rewrite Hk'. rewrite enrw_close by exact Hd. rewrite !omap_app.
           unfold e at 1. cbn [e2_close e_close cur c_flag e2_flag c_elt e2_elt]. rewrite V.
           unfold e. cbn [ewalk_ref]. rewrite V. fold (kids_ref ((k0, tl0) :: right)). cbn [app]. reflexivity.
        -- exists (S (2 + (n' + 1))). split.
           { unfold e. cbn [esize ksize fold_right length fst snd tcost is_nil] in *. lia. }
           intro k. replace (S (2 + (n' + 1)) + k)%nat with (S (S (S (n' + S k)))) by lia.
           rewrite enrw_open by exact Hd. unfold e. cbn [e2_open e_open cur c_flag e2_flag c_elt e2_elt]. rewrite V.
           cbn [length Nat.eqb negb orb fst snd e2_first cur e2_flag e2_elt e_text e_kids e2_tail e2_key e2_parents].
           rewrite text_cursor. cbn [e_text]. rewrite omap_app.
           unfold ekont at 1. cbn [e2_bare e2_next e2_flag e_kids e2_elt e2_tail e2_key e2_parents].
           rewrite first_child_cursor. fold e. rewrite Hk'. rewrite enrw_close by exact Hd. rewrite !omap_app.
           unfold e at 1. cbn [e2_close e_close cur c_flag e2_flag c_elt e2_elt]. rewrite V.
           unfold e. cbn [ewalk_ref]. rewrite V. fold (kids_ref ((k0, tl0) :: right)). cbn [app]. rewrite <- !app_assoc. reflexivity.
  - exists 2%nat. split; [cbn; lia|]. intro k. rewrite (leaf_open isdoc _ tl key ps [TComment s] Hd); reflexivity.
  - exists 2%nat. split; [cbn; lia|]. intro k. rewrite (leaf_open isdoc _ tl key ps [TDoctype dn dp ds] Hd); reflexivity.
Qed.

(* walking from an element (the tree walker called on a subtree root) *)
Theorem ewalk_element e fuel : (esize e <= fuel)%nat -> ewalk fuel false e = Some (ewalk_ref e).
Proof.
  intro Hf. unfold ewalk. change {| e2_elt := e; e2_tail := []; e2_key := 0; e2_parents := []; e2_flag := FNone; e2_bare := true |}
    with (cur e [] 0 []).
  destruct (Pe_all e false [] 0%nat [] eq_refl) as [n [Hn Hk]].
  replace fuel with (n + (fuel - n))%nat by lia. rewrite Hk. unfold ekont. cbn [cur e2_bare is_nil option_map].
  rewrite app_nil_r. reflexivity.
Qed.

(* walking a document / fragment: the root's own tokens are suppressed *)
Theorem ewalk_document ns name a t kids fuel : (esize (EEl ns name a t kids) <= fuel)%nat ->
  ewalk fuel true (EEl ns name a t kids) = Some (text_tokens t ++ kids_ref kids).
Proof.
  intro Hf. unfold ewalk.
  change {| e2_elt := EEl ns name a t kids; e2_tail := []; e2_key := 0; e2_parents := []; e2_flag := FNone; e2_bare := true |}
    with (cur (EEl ns name a t kids) [] 0 []).
  set (e := EEl ns name a t kids) in *.
  destruct kids as [|[k0 tl0] right].
  - destruct t as [|t0 t'].
    + destruct fuel as [|[|f]]; [cbn in Hf; lia|cbn in Hf; lia|].
      rewrite enrw_open_docroot by reflexivity. unfold e. cbn [e2_first cur e2_flag e2_elt e_text e_kids].
      rewrite enrw_close_docroot by reflexivity. reflexivity.
    + destruct fuel as [|[|[|[|f]]]]; try (cbn in Hf; lia).
      rewrite enrw_open_docroot by reflexivity. unfold e. cbn [e2_first cur e2_flag e2_elt e_text e_kids e2_tail e2_key e2_parents].
      rewrite text_cursor. cbn [e_text]. unfold ekont.
      cbn [e2_bare e2_next e2_flag e_kids e2_elt e2_parent e2_tail e2_key e2_parents].
      rewrite enrw_close_docroot by reflexivity. cbn [option_map]. unfold kids_ref. cbn [flat_map]. reflexivity.
  - destruct (children_walk true e [] 0%nat [] ((k0, tl0) :: right) eq_refl right 0%nat k0 tl0 eq_refl eq_refl)
      as [n' [Hn' Hk']].
    { clear. induction ((k0, tl0) :: right) as [|[k tl] r IHr]; constructor; [apply Pe_all|exact IHr]. }
    destruct t as [|t0 t'].
    + replace fuel with (S (n' + (fuel - n' - 1)))%nat by (unfold e in Hf; cbn [esize ksize fold_right fst snd tcost is_nil] in *; lia).
      rewrite enrw_open_docroot by reflexivity. unfold e at 1. cbn [e2_first cur e2_flag e2_elt e_text e_kids e2_tail e2_key e2_parents].
      rewrite first_child_cursor. fold e. rewrite Hk'.
      destruct (fuel - n' - 1)%nat as [|f] eqn:Ef; [unfold e in Hf; cbn [esize ksize fold_right fst snd tcost is_nil] in *; lia|].
      rewrite enrw_close_docroot by reflexivity. cbn [option_map app]. rewrite app_nil_r. reflexivity.
    + replace fuel with (S (S (S (n' + (fuel - n' - 3)))))%nat by (unfold e in Hf; cbn [esize ksize fold_right fst snd tcost is_nil] in *; lia).
      rewrite enrw_open_docroot by reflexivity. unfold e at 1. cbn [e2_first cur e2_flag e2_elt e_text e_kids e2_tail e2_key e2_parents].
      rewrite text_cursor. cbn [e_text]. unfold ekont.
      cbn [e2_bare e2_next e2_flag e_kids e2_elt e2_tail e2_key e2_parents].
      rewrite first_child_cursor. fold e. rewrite Hk'.
      destruct (fuel - n' - 3)%nat as [|f] eqn:Ef; [unfold e in Hf; cbn [esize ksize fold_right fst snd tcost is_nil] in *; lia|].
      rewrite enrw_close_docroot by reflexivity. cbn [option_map]. rewrite app_nil_r. reflexivity.
Qed.

(* ================= the .text/.tail representation of a tree walks like the tree ================= *)
Notation walkH := (walk voidElements html_ns).
(* normal form of a tree as ElementTree can hold it: no empty text node, no two adjacent text nodes *)
Fixpoint adj_ok (l : list node) : bool :=
  match l with
  | [] => true
  | Text s :: r => negb (is_nil s) && (match r with Text _ :: _ => false | _ => true end) && adj_ok r
  | _ :: r => adj_ok r
  end.
Fixpoint norm_ok (n : node) : bool :=
  match n with
  | Elem _ _ _ kids => adj_ok kids && forallb norm_ok kids
  | _ => true
  end.
Definition not_text (n : node) : bool := match n with Text _ => false | _ => true end.

Fixpoint goE (kids : list node) : str * list (enode * str) :=
  match kids with
  | [] => ([], [])
  | k :: r =>
      let '(lead, ch) := goE r in
      match k with
      | Text s => (s ++ lead, ch)
      | _ => ([], (toE k, lead) :: ch)
      end
  end.
Lemma toE_elem ns name a kids : toE (Elem ns name a kids) = let '(t, ch) := goE kids in EEl ns name a t ch.
Proof. reflexivity. Qed.

Lemma text_tokens_nil : text_tokens [] = [].
Proof. reflexivity. Qed.

Lemma goE_lead kids : match kids with Text _ :: _ => True | _ => fst (goE kids) = [] end.
Proof.
  destruct kids as [|k r]; [reflexivity|]. destruct k; [|exact I| |]; cbn [goE]; destruct (goE r); reflexivity.
Qed.

Lemma goE_spec kids :
  Forall (fun k => not_text k = true -> norm_ok k = true -> ewalk_ref (toE k) = walkH k) kids ->
  adj_ok kids = true -> forallb norm_ok kids = true ->
  text_tokens (fst (goE kids)) ++ kids_ref (snd (goE kids)) = flat_map walkH kids /\
  e_hasc (fst (goE kids)) (snd (goE kids)) = negb (is_nil kids).
Proof.
  induction kids as [|k r IH]; intros HF Ha Hn.
  - split; reflexivity.
  - inversion HF as [|? ? Hk HFr]; subst. cbn [forallb] in Hn. apply andb_true_iff in Hn as [Hnk Hnr].
    assert (Har : adj_ok r = true).
    { destruct k; cbn [adj_ok] in Ha; try exact Ha. apply andb_true_iff in Ha as [_ Ha]. exact Ha. }
    destruct (IH HFr Har Hnr) as [IH1 IH2]. pose proof (goE_lead r) as Hl.
    cbn [goE]. destruct (goE r) as [lead ch] eqn:Eg. cbn [fst snd] in *.
    destruct k as [ns name a kk|s|s|dn dp ds].
    + cbn [fst snd flat_map]. rewrite text_tokens_nil. cbn [app]. unfold kids_ref in *. cbn [flat_map fst snd].
      rewrite (Hk eq_refl Hnk), <- app_assoc, IH1. split; [reflexivity|]. unfold e_hasc. reflexivity.
    + cbn [adj_ok] in Ha. apply andb_true_iff in Ha as [Ha _]. apply andb_true_iff in Ha as [Ha1 Ha2].
      assert (lead = []) by (destruct r as [|[] r']; try exact Hl; discriminate Ha2). subst lead.
      cbn [fst snd flat_map walk]. rewrite app_nil_r. rewrite text_tokens_nil in IH1. cbn [app] in IH1. rewrite IH1.
      split; [reflexivity|]. unfold e_hasc. destruct s; [discriminate Ha1|]. cbn. rewrite orb_true_r. reflexivity.
    + cbn [fst snd flat_map]. rewrite text_tokens_nil. cbn [app]. unfold kids_ref in *. cbn [flat_map fst snd toE ewalk_ref walk].
      cbn [app]. rewrite IH1. split; reflexivity.
    + cbn [fst snd flat_map]. rewrite text_tokens_nil. cbn [app]. unfold kids_ref in *. cbn [flat_map fst snd toE ewalk_ref walk].
      cbn [app]. rewrite IH1. split; reflexivity.
Qed.

Lemma toE_walk n : not_text n = true -> norm_ok n = true -> ewalk_ref (toE n) = walkH n.
Proof.
  induction n as [ns name a kids IH | s | s | dn dp ds] using node_ind'; intros Ht Hn; try reflexivity; [|discriminate Ht].
  cbn [norm_ok] in Hn. apply andb_true_iff in Hn as [Ha Hk].
  rewrite toE_elem. destruct (goE_spec kids IH Ha Hk) as [H1 H2]. destruct (goE kids) as [t ch]. cbn [fst snd] in *.
  cbn [ewalk_ref walk]. destruct (is_voidH ns name).
  - rewrite H2. destruct kids; reflexivity.
  - fold (kids_ref ch). rewrite app_assoc, H1. reflexivity.
Qed.

(* the ElementTree walker on the representation of a tree = the walk of the tree *)
Theorem etree_walker_element n fuel : not_text n = true -> norm_ok n = true -> (esize (toE n) <= fuel)%nat ->
  ewalk fuel false (toE n) = Some (walkH n).
Proof. intros Ht Hn Hf. rewrite (ewalk_element _ _ Hf), (toE_walk n Ht Hn). reflexivity. Qed.
Theorem etree_walker_document kids fuel : adj_ok kids = true -> forallb norm_ok kids = true ->
  (esize (toE (Elem None [] [] kids)) <= fuel)%nat ->
  ewalk fuel true (toE (Elem None [] [] kids)) = Some (walk_all voidElements html_ns kids).
Proof.
  intros Ha Hk Hf. rewrite toE_elem in *. destruct (goE kids) as [t ch] eqn:Eg.
  rewrite (ewalk_document _ _ _ _ _ _ Hf).
  assert (HF : Forall (fun k => not_text k = true -> norm_ok k = true -> ewalk_ref (toE k) = walkH k) kids).
  { apply Forall_forall. intros k _. apply toE_walk. }
  destruct (goE_spec kids HF Ha Hk) as [H1 _]. rewrite Eg in H1. cbn [fst snd] in H1. rewrite H1. reflexivity.
Qed.

(* the fuel the entry points supply (Model/C11.v: 4 * size + 8) is enough *)
Lemma tcost_le s : (tcost s <= 2)%nat.
Proof. unfold tcost. destruct (is_nil s); lia. Qed.
Lemma goE_cost kids : Forall (fun k => (esize (toE k) <= 2 * size k)%nat) kids ->
  (tcost (fst (goE kids)) + ksize (snd (goE kids)) <= 2 * fsize kids)%nat.
Proof.
  induction kids as [|k r IH]; intro HF; [cbn; lia|].
  inversion HF as [|? ? Hk HFr]; subst. specialize (IH HFr). cbn [goE]. destruct (goE r) as [lead ch]. cbn [fst snd] in *.
  unfold fsize in *. cbn [fold_right].
  unfold ksize in *.
  destruct k as [ns name a kk|s|s|dn dp ds]; cbn [fst snd fold_right] in *.
  - cbn [tcost is_nil]. lia.
  - pose proof (tcost_le (s ++ lead)). pose proof (tcost_le lead). cbn [size]. lia.
  - cbn [tcost is_nil toE esize size] in *. lia.
  - cbn [tcost is_nil toE esize size] in *. lia.
Qed.
Lemma esize_toE n : (esize (toE n) <= 2 * size n)%nat.
Proof.
  induction n as [ns name a kids IH | s | s | dn dp ds] using node_ind'; try (cbn; lia).
  rewrite toE_elem. pose proof (goE_cost kids IH) as H. destruct (goE kids) as [t ch]. cbn [fst snd] in H.
  cbn [esize size]. fold (ksize ch). fold (fsize kids). lia.
Qed.

Theorem etree_walker_element_model_fuel n : not_text n = true -> norm_ok n = true ->
  ewalk (4 * size n + 8) false (toE n) = Some (walkH n).
Proof. intros Ht Hn. apply etree_walker_element; [exact Ht|exact Hn|]. pose proof (esize_toE n). lia. Qed.
Theorem etree_walker_document_model_fuel kids : adj_ok kids = true -> forallb norm_ok kids = true ->
  ewalk (4 * fsize kids + 8) true (toE (Elem None [] [] kids)) = Some (walk_all voidElements html_ns kids).
Proof.
  intros Ha Hk. apply etree_walker_document; [exact Ha|exact Hk|].
  pose proof (esize_toE (Elem None [] [] kids)) as H. cbn [size] in H. fold (fsize kids) in H. lia.
Qed.

(* hence the two walkers emit the same stream for the same document *)
From Verif.Proofs Require C11.
Theorem etree_and_dom_walkers_agree kids : adj_ok kids = true -> forallb norm_ok kids = true ->
  ewalk (4 * fsize kids + 8) true (toE (Elem None [] [] kids)) = walk_doc_nrw (2 * fsize kids + 4) kids.
Proof. intros Ha Hk. rewrite (etree_walker_document_model_fuel kids Ha Hk). symmetry. apply C11.nrw_doc_correct. Qed.
