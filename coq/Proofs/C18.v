From Coq Require Import NArith List Bool Permutation Sorted Lia.
From Verif Require Import Sx Str Tok.
From Verif.Gen Require Import AlphaAttrs.
From Verif.Model Require Import C18.
Import ListNotations.

(* ---------- the key order is a total order ---------- *)
Lemma key_cmp_antisym a b : key_cmp b a = CompOpp (key_cmp a b).
Proof.
  unfold key_cmp. rewrite (str_cmp_antisym (fst a) (fst b)).
  destruct (str_cmp (fst a) (fst b)); cbn; auto. apply str_cmp_antisym.
Qed.

Lemma key_cmp_eq a b : key_cmp a b = Eq <-> a = b.
Proof.
  destruct a as [a1 a2], b as [b1 b2]; unfold key_cmp; cbn [fst snd]. split.
  - destruct (str_cmp a1 b1) eqn:E; try discriminate. intro H.
    apply str_cmp_eq in E. apply str_cmp_eq in H. congruence.
  - intro H; injection H as -> ->.
    assert (E : str_cmp b1 b1 = Eq) by (apply str_cmp_eq; reflexivity).
    rewrite E. apply str_cmp_eq. reflexivity.
Qed.

Lemma key_cmp_lt_trans a b c : key_cmp a b = Lt -> key_cmp b c = Lt -> key_cmp a c = Lt.
Proof.
  destruct a as [a1 a2], b as [b1 b2], c as [c1 c2]; unfold key_cmp; cbn [fst snd].
  destruct (str_cmp a1 b1) eqn:E1; try discriminate;
  destruct (str_cmp b1 c1) eqn:E2; try discriminate; intros H1 H2.
  - apply str_cmp_eq in E1. apply str_cmp_eq in E2. subst.
    assert (E : str_cmp c1 c1 = Eq) by (apply str_cmp_eq; reflexivity).
    rewrite E. eapply str_cmp_lt_trans; eassumption.
  - apply str_cmp_eq in E1. subst. rewrite E2. reflexivity.
  - apply str_cmp_eq in E2. subst. rewrite E1. reflexivity.
  - rewrite (str_cmp_lt_trans _ _ _ E1 E2). reflexivity.
Qed.

Lemma key_leb_total a b : key_leb a b = false -> key_leb b a = true.
Proof.
  unfold key_leb. rewrite (key_cmp_antisym a b). destruct (key_cmp a b); cbn; congruence.
Qed.

Lemma key_leb_trans a b c : key_leb a b = true -> key_leb b c = true -> key_leb a c = true.
Proof.
  unfold key_leb. destruct (key_cmp a b) eqn:E1; try discriminate;
  destruct (key_cmp b c) eqn:E2; try discriminate; intros _ _.
  - apply key_cmp_eq in E1. subst. rewrite E2. reflexivity.
  - apply key_cmp_eq in E1. subst. rewrite E2. reflexivity.
  - apply key_cmp_eq in E2. subst. rewrite E1. reflexivity.
  - rewrite (key_cmp_lt_trans _ _ _ E1 E2). reflexivity.
Qed.

Lemma key_leb_antisym a b : key_leb a b = true -> key_leb b a = true -> a = b.
Proof.
  unfold key_leb. rewrite (key_cmp_antisym a b).
  destruct (key_cmp a b) eqn:E; cbn; try discriminate. intros _ _. apply key_cmp_eq. exact E.
Qed.

Definition R (x y : attr) : Prop := key_leb (attr_key x) (attr_key y) = true.

(* ---------- stable insertion sort ---------- *)
Lemma insert_perm x l : Permutation (insert x l) (x :: l).
Proof.
  induction l as [|y l IH]; cbn [insert]; [reflexivity|].
  destruct (key_leb _ _); [reflexivity|].
  rewrite IH. apply perm_swap.
Qed.

Lemma sort_perm l : Permutation (sort_attrs l) l.
Proof.
  induction l as [|x l IH]; cbn; [reflexivity|].
  rewrite insert_perm. constructor. exact IH.
Qed.

Lemma insert_sorted x l : StronglySorted R l -> StronglySorted R (insert x l).
Proof.
  induction l as [|y l IH]; cbn [insert]; intro H.
  - constructor; constructor.
  - destruct (key_leb (attr_key x) (attr_key y)) eqn:E.
    + constructor; [exact H|]. inversion H as [|? ? Hs Hf]; subst.
      constructor; [exact E|].
      eapply Forall_impl; [|exact Hf]. intros z Hz. unfold R in *. eapply key_leb_trans; eassumption.
    + inversion H as [|? ? Hs Hf]; subst. constructor; [apply IH; exact Hs|].
      eapply Permutation_Forall; [symmetry; apply insert_perm|].
      constructor; [apply key_leb_total; exact E | exact Hf].
Qed.

Lemma sort_sorted l : StronglySorted R (sort_attrs l).
Proof. induction l as [|x l IH]; cbn; [constructor | apply insert_sorted; exact IH]. Qed.

(* ---------- rebuilding the OrderedDict is the identity on distinct keys ---------- *)
Lemma dict_set_fresh d k v : ~ In k (map fst d) -> dict_set d k v = d ++ [(k, v)].
Proof.
  induction d as [|[k' v'] d IH]; cbn; intro H; [reflexivity|].
  destruct (akey_eqb k' k) eqn:E.
  - apply akey_eqb_eq in E. subst. exfalso. apply H. left. reflexivity.
  - rewrite IH; [reflexivity|]. intro Hin. apply H. right. exact Hin.
Qed.

Lemma dict_fold_nodup l d :
  NoDup (map fst (d ++ l)) ->
  fold_left (fun d kv => dict_set d (fst kv) (snd kv)) l d = d ++ l.
Proof.
  revert d; induction l as [|[k v] l IH]; intros d H; cbn [fold_left fst snd].
  - rewrite app_nil_r. reflexivity.
  - rewrite dict_set_fresh.
    + rewrite IH; rewrite <- app_assoc; [reflexivity | exact H].
    + rewrite map_app in H. cbn in H. apply NoDup_remove_2 in H.
      intro Hin. apply H. apply in_or_app. left. exact Hin.
Qed.

Lemma dict_of_items_nodup l : NoDup (map fst l) -> dict_of_items l = l.
Proof. intro H. unfold dict_of_items. rewrite dict_fold_nodup; [reflexivity | exact H]. Qed.

Lemma aa_attrs_sort a : NoDup (map fst a) -> aa_attrs a = sort_attrs a.
Proof.
  intro H. unfold aa_attrs. apply dict_of_items_nodup.
  eapply Permutation_NoDup; [|exact H]. apply Permutation_map. symmetry. apply sort_perm.
Qed.

(* ---------- sorted permutations of an antisymmetric order coincide ---------- *)
Lemma sorted_perm_eq (l1 l2 : attrs) :
  StronglySorted R l1 -> StronglySorted R l2 -> Permutation l1 l2 ->
  (forall x y, In x l1 -> In y l1 -> R x y -> R y x -> x = y) ->
  l1 = l2.
Proof.
  revert l2; induction l1 as [|x l1 IH]; intros l2 S1 S2 P AS.
  - apply Permutation_nil in P. congruence.
  - destruct l2 as [|y l2]; [apply Permutation_sym, Permutation_nil in P; discriminate|].
    inversion S1 as [|? ? S1' F1]; subst. inversion S2 as [|? ? S2' F2]; subst.
    assert (x = y) as ->.
    { assert (Hx : In x (y :: l2)) by (eapply Permutation_in; [exact P | left; reflexivity]).
      assert (Hy : In y (x :: l1)) by (eapply Permutation_in; [symmetry; exact P | left; reflexivity]).
      destruct Hx as [->|Hx]; [reflexivity|]. destruct Hy as [->|Hy]; [reflexivity|].
      rewrite Forall_forall in F1, F2.
      apply AS; [left; reflexivity | right; exact Hy | apply F1; exact Hy | apply F2; exact Hx]. }
    f_equal. apply IH; try assumption.
    + eapply Permutation_cons_inv; exact P.
    + intros a b Ha Hb. apply AS; right; assumption.
Qed.

Lemma nodup_map_inj {X Y} (f : X -> Y) l x y :
  NoDup (map f l) -> In x l -> In y l -> f x = f y -> x = y.
Proof.
  induction l as [|z l IH]; cbn; intros H Hx Hy E; [contradiction|].
  inversion H as [|? ? Hn Hd]; subst.
  destruct Hx as [->|Hx], Hy as [->|Hy]; try reflexivity.
  - exfalso. apply Hn. rewrite E. apply in_map. exact Hy.
  - exfalso. apply Hn. rewrite <- E. apply in_map. exact Hx.
  - apply IH; assumption.
Qed.

(* ---------- the statements used by Props/C18.v ---------- *)
Lemma aa_attrs_permutation a : NoDup (map fst a) -> Permutation (aa_attrs a) a.
Proof. intro H. rewrite aa_attrs_sort by exact H. apply sort_perm. Qed.

Lemma aa_attrs_sorted a : NoDup (map fst a) -> StronglySorted R (aa_attrs a).
Proof. intro H. rewrite aa_attrs_sort by exact H. apply sort_sorted. Qed.

Lemma aa_attrs_order_independent a b :
  NoDup (map attr_key a) -> NoDup (map fst a) -> Permutation a b -> aa_attrs a = aa_attrs b.
Proof.
  intros Hk Ha P.
  assert (Hb : NoDup (map fst b)) by (eapply Permutation_NoDup; [apply Permutation_map; exact P | exact Ha]).
  rewrite !aa_attrs_sort by assumption.
  apply sorted_perm_eq; try apply sort_sorted.
  - rewrite sort_perm. rewrite P. symmetry. apply sort_perm.
  - intros x y Hx Hy Rxy Ryx.
    assert (Hk' : NoDup (map attr_key (sort_attrs a))).
    { eapply Permutation_NoDup; [apply Permutation_map; symmetry; apply sort_perm | exact Hk]. }
    eapply nodup_map_inj; [exact Hk' | exact Hx | exact Hy |].
    apply key_leb_antisym; assumption.
Qed.

Definition is_tag (t : token) : bool :=
  match t with TStart _ _ _ | TEmpty _ _ _ => true | _ => false end.

Lemma aa_others_untouched t : is_tag t = false -> aa_token t = t.
Proof. destruct t; cbn; congruence. Qed.

Lemma AA_pointwise ts i d : nth i (AA ts) (aa_token d) = aa_token (nth i ts d).
Proof. unfold AA. apply map_nth. Qed.

Lemma AA_length ts : length (AA ts) = length ts.
Proof. apply map_length. Qed.

(* key collisions: the key is injective exactly up to None vs Some [] *)
Lemma attr_key_inj_on (a b : attr) :
  fst (fst a) <> Some [] -> fst (fst b) <> Some [] ->
  attr_key a = attr_key b -> fst a = fst b.
Proof.
  destruct a as [[na la] va], b as [[nb lb] vb]; unfold attr_key, or_empty, id_str; cbn [fst snd].
  intros Ha Hb E. injection E as E1 E2. subst lb.
  destruct na as [na|], nb as [nb|]; cbn in E1; subst; try reflexivity.
  - exfalso. apply Ha. reflexivity.
  - exfalso. apply Hb. reflexivity.
Qed.
