From Coq Require Import NArith List Bool Arith Lia ZifyBool ZifyN.
From Verif Require Import Sx Str.
From Verif.Gen Require Import Entities Tokenizer.
From Verif.Model Require Import CharRef TokBase TokHand C02.
From Verif.Spec Require Import CharRef TokSpec.
From Verif.Proofs Require Import C02a C02dict C08 C02sim.
From Verif.Proofs Require Import C02simtac C02sim_mdo.
Import ListNotations.
Local Open Scope N_scope.

Definition not_gt (x : N) : bool := negb (x =? 62).
Lemma kw_scan_spec w : forallb is_lower w = true -> forall i,
  match kw_scan w i with
  | (true, r) => kw_match false w i = Some r
  | (false, r) => kw_match false w i = None /\ exists pre, i = pre ++ r /\ forallb not_gt pre = true
  end.
Proof.
  induction w as [|e w IH]; intros Hw i; [reflexivity|].
  cbn [forallb] in Hw. apply andb_true_iff in Hw as [He Hw].
  cbn [kw_scan kw_match]. destruct i as [|c r]; [split; [reflexivity|exists []; split; reflexivity]|].
  destruct ((c =? e) || (c + 32 =? e)) eqn:Ec.
  - specialize (IH Hw r). destruct (kw_scan w r) as [[|] r']; [exact IH|].
    destruct IH as [Hn (pre & Hp & Hg)]. split; [exact Hn|]. exists (c :: pre). split; [rewrite Hp; reflexivity|].
    cbn [forallb]. rewrite Hg. unfold not_gt, is_lower in *. lia.
  - split; [reflexivity|]. exists []. split; reflexivity.
Qed.

Definition adn_alt (k0 : tk) : tk * bool :=
  let k := advance k0 in
  match inp k0 with
  | [] => go dataState (emit_cur (fq k0))
  | x :: r =>
      if x =? 62 then go dataState (emit_cur k) else
      if is_space x then (k, true) else
      if (x =? 112) || (x =? 80) then
        match kw_match false kw_ublic r with
        | Some r' => go afterDoctypePublicKeywordState (set_inp r' k0)
        | None => go bogusDoctypeState (fq k0)
        end
      else if (x =? 115) || (x =? 83) then
        match kw_match false kw_ystem r with
        | Some r' => go afterDoctypeSystemKeywordState (set_inp r' k0)
        | None => go bogusDoctypeState (fq k0)
        end
      else go bogusDoctypeState (fq k0)
  end.

Lemma sp_adn_eq i cu t o cd :
  sp_step (mk_tk afterDoctypeNameState i cu t o cd false) = adn_alt (mk_tk afterDoctypeNameState i cu t o cd false).
Proof.
  unfold sp_step, adn_alt. cbn [st inp]. cbv beta iota zeta delta [peek]. cbn [st inp hd_error].
  destruct i as [|x r]; [reflexivity|]. cbn [hd_error].
  destruct (x =? 62) eqn:E62; [reflexivity|]. destruct (is_space x) eqn:Esp; [reflexivity|].
  rewrite (next_are_kw w_PUBLIC eq_refl), (next_are_kw w_SYSTEM eq_refl).
  change (map (fun e => e + 32) w_PUBLIC) with (112 :: kw_ublic). change (map (fun e => e + 32) w_SYSTEM) with (115 :: kw_ystem).
  cbn [kw_match].
  replace (x + 32 =? 112) with (x =? 80) by lia. replace (x + 32 =? 115) with (x =? 83) by lia.
  destruct ((x =? 112) || (x =? 80)) eqn:Ep.
  { destruct (kw_match false kw_ublic r); [reflexivity|]. replace ((x =? 115) || (x =? 83)) with false by lia. reflexivity. }
  destruct ((x =? 115) || (x =? 83)) eqn:Es; [|reflexivity].
  destruct (kw_match false kw_ystem r); reflexivity.
Qed.

Lemma bogus_doctype_skip : forall l rest cu t o cd, forallb not_gt l = true ->
  sp_iter (length l) (mk_tk bogusDoctypeState (l ++ rest) cu t o cd false) = Some (mk_tk bogusDoctypeState rest cu t o cd false).
Proof.
  apply (batch_skip bogusDoctypeState not_gt). intros c r cu t o cd Hc. unfold not_gt in Hc. apply negb_true_iff in Hc.
  unfold sp_step. cbv beta iota zeta delta [peek]. cbn [st inp hd_error]. rewrite Hc. reflexivity.
Qed.

Lemma sim_afterDoctypeNameState : forall m s, R m s -> st m = afterDoctypeNameState -> wk m = true -> simok s (step_afterDoctypeNameState m).
Proof.
  intros m s HR Hst Hwk.
  destruct m as [ms mi mc mt mo mcd mb]; destruct s as [ss si sc st' so scd sb];
  unfold R, sst, sinp in HR; cbn [st inp cur tmp out cdata_ok bad] in *;
  destruct HR as (Hs & Hi & Ht & Ho & Hcd & Hb & Hsb & Hc); subst; cbv beta iota.
  eval_eqb. prep_cur. prep_wk. cbn [ncur] in *. eval_eqb.
  unfold step_afterDoctypeNameState. cbv beta iota zeta delta [peek]. cbn [inp hd_error].
  cbv beta iota zeta delta [advance]. cbn [inp tl].
  assert (Hone : forall (r : tk * bool) s', snd r = true -> bad (fst r) = false -> wk (fst r) = true ->
             cdata_ok (fst r) = mcd -> covered (fst r) = true ->
             adn_alt (mk_tk afterDoctypeNameState mi (CDoctype name pub sys correct) mt (flatr mo) mcd false) = (s', true) ->
             R (fst r) s' ->
             simok (mk_tk afterDoctypeNameState mi (CDoctype name pub sys correct) mt (flatr mo) mcd false) r).
  { intros r s' Hs Hb Hw Hcd Hcv He HR. unfold simok. cbn [cdata_ok].
    split; [exact Hb|]. split; [exact Hw|]. split; [exact Hcd|]. split; [rewrite Hcv; intro Hx; discriminate Hx|]. rewrite Hs.
    exists 1%nat, s'. split; [|exact HR]. cbn [sp_iter]. rewrite sp_adn_eq, He. reflexivity. }
  destruct mi as [|c r]; cbn [hd_error].
  { eapply Hone; try reflexivity. r_solve. }
  destruct (is_space c) eqn:Esp.
  { eapply Hone; try reflexivity. { unfold adn_alt. cbn [inp]. rewrite Esp. replace (c =? 62) with false by (unfold is_space in Esp; lia). reflexivity. } r_solve. }
  destruct (c =? 62) eqn:E62.
  { eapply Hone; try reflexivity. { unfold adn_alt. cbn [inp]. rewrite E62. s_norm. reflexivity. } r_solve. }
  cbv beta iota zeta delta [set_inp]. cbn [inp tl st cur tmp out cdata_ok bad].
  assert (Hcase : forall w stN, forallb is_lower w = true ->
     (forall r', kw_match false w r = Some r' ->
        adn_alt (mk_tk afterDoctypeNameState (c :: r) (CDoctype name pub sys correct) mt (flatr mo) mcd false)
        = (mk_tk stN r' (CDoctype name pub sys correct) mt (flatr mo) mcd false, true)) ->
     (kw_match false w r = None ->
        adn_alt (mk_tk afterDoctypeNameState (c :: r) (CDoctype name pub sys correct) mt (flatr mo) mcd false)
        = (mk_tk bogusDoctypeState (c :: r) (CDoctype name pub sys false) mt (flatr mo) mcd false, true)) ->
     is_doctype (CDoctype name pub sys correct) = true -> wk (mk_tk stN [] (CDoctype name pub sys correct) mt mo mcd false) = true ->
     (forall i c t o cd b, sst (mk_tk stN i c t o cd b) = stN) -> (forall i c t o cd b, sinp (mk_tk stN i c t o cd b) = i) ->
     covered (mk_tk stN [] CNone [] [] false false) = true ->
     cur_dead stN = false -> tstate_eqb stN bogusCommentState = false -> ncur stN (CDoctype name pub sys correct) = CDoctype name pub sys correct ->
     simok (mk_tk afterDoctypeNameState (c :: r) (CDoctype name pub sys correct) mt (flatr mo) mcd false)
       (let (b, r0) := kw_scan w r in
        if b then (set_st stN (mk_tk afterDoctypeNameState r0 (CDoctype name pub sys correct) mt mo mcd false), true)
        else (set_st bogusDoctypeState (set_incorrect (emit (OErr E_expected_space_or_right_bracket_in_doctype)
                 (mk_tk afterDoctypeNameState r0 (CDoctype name pub sys correct) mt mo mcd false))), true))).
  { intros w stN Hw HS HN _ Hwk2 Hsst Hsinp Hcvn Hdead Hnb Hnc.
    pose proof (kw_scan_spec w Hw r) as Hk. destruct (kw_scan w r) as [[|] r'].
    - unfold simok. cbn [fst snd]. m_norm. split; [reflexivity|]. split; [exact Hwk2|]. split; [reflexivity|].
      split; [unfold covered in *; cbn [st] in *; rewrite Hcvn; intro Hx; discriminate Hx|].
      exists 1%nat. eexists. split; [cbn [sp_iter]; rewrite sp_adn_eq, (HS _ Hk); reflexivity|].
      unfold R. rewrite Hsst, Hsinp. cbn [st inp cur tmp out cdata_ok bad]. rewrite Hnb, Hdead, Hnc. repeat split; try reflexivity. right; reflexivity.
    - destruct Hk as (Hn & pre & Hp & Hg).
      unfold simok. cbn [fst snd]. m_norm. split; [reflexivity|]. split; [reflexivity|]. side2.
      exists (1 + length (c :: pre))%nat. eexists. split.
      + erewrite sp_iter_app; [|cbn [sp_iter]; rewrite sp_adn_eq, (HN Hn); reflexivity].
        rewrite Hp. change (c :: pre ++ r') with ((c :: pre) ++ r'). apply bogus_doctype_skip.
        cbn [forallb]. rewrite Hg. unfold not_gt. rewrite E62. reflexivity.
      + r_solve. }
  destruct ((c =? 112) || (c =? 80)) eqn:Ep.
  { apply (Hcase kw_ublic afterDoctypePublicKeywordState eq_refl); try reflexivity.
    - intros r' Hr. unfold adn_alt. cbn [inp]. rewrite E62, Esp, Ep, Hr. reflexivity.
    - intros Hr. unfold adn_alt. cbn [inp]. rewrite E62, Esp, Ep, Hr. reflexivity. }
  destruct ((c =? 115) || (c =? 83)) eqn:Es.
  { apply (Hcase kw_ystem afterDoctypeSystemKeywordState eq_refl); try reflexivity.
    - intros r' Hr. unfold adn_alt. cbn [inp]. rewrite E62, Esp, Ep, Es, Hr. reflexivity.
    - intros Hr. unfold adn_alt. cbn [inp]. rewrite E62, Esp, Ep, Es, Hr. reflexivity. }
  eapply Hone; try reflexivity. { unfold adn_alt. cbn [inp]. rewrite E62, Esp, Ep, Es. reflexivity. } r_solve.
Qed.
