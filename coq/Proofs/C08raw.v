(* C08raw -- raw-text elements (style, xmp, iframe, noembed, noframes: everything in rcdataElements except script,
   whose escape states are not covered here): the text the serializer writes raw and the end tag after it are read
   back by S_tok, started in the RAWTEXT state with the element's start tag as the last start tag, as exactly that
   text and that end tag -- provided the text holds no "</" and no U+0000.  The serializer reports an error for
   "</" inside one text token (Model/Ser.v: E_lt_slash_in_cdata); the hypothesis here is on the whole text. *)
From Coq Require Import NArith List Bool Arith Lia ZifyBool ZifyN.
From Verif Require Import Sx Str Tok.
From Verif.Gen Require Import Consts Entities Serializer.
From Verif.Model Require Import CharRef TokBase Ser.
From Verif.Spec Require Import CharRef TokSpec.
From Verif.Proofs Require Import C08 SpecTac C08tag.
Import ListNotations.
Local Open Scope N_scope.

(* what may follow a "<" *)
Definition next_ok (i : str) : bool := match i with d :: _ => negb (d =? 47) | [] => true end.
(* no U+0000, and no "<" directly followed by "/" *)
Fixpoint raw_ok (l : str) : bool :=
  match l with
  | [] => true
  | c :: r => negb (c =? 0) && (if c =? 60 then next_ok r else true) && raw_ok r
  end.

Lemma next_ok_app r rest : (r = [] -> next_ok rest = true) -> (r <> [] -> next_ok r = true) -> next_ok (r ++ rest) = true.
Proof. destruct r as [|d r]; intros H1 H2; [apply H1; reflexivity|apply H2; discriminate]. Qed.

Lemma raw_body : forall l rest cu t o cd, raw_ok l = true -> next_ok rest = true ->
  exists j, sp_iter j (mk_tk rawtextState (l ++ rest) cu t o cd false)
            = Some (mk_tk rawtextState rest cu t (singles_r l ++ o) cd false).
Proof.
  induction l as [|c l IH]; intros rest cu t o cd Hl Hr.
  - exists 0%nat. reflexivity.
  - cbn [raw_ok] in Hl. apply andb_true_iff in Hl as [Hl Hl3]. apply andb_true_iff in Hl as [Hl1 Hl2].
    destruct (c =? 60) eqn:Ec.
    + apply N.eqb_eq in Ec. subst c.
      assert (Hn : next_ok (l ++ rest) = true).
      { apply next_ok_app; [intros ->; exact Hr|intros _; exact Hl2]. }
      destruct (IH rest cu t (OChars [60] :: o) cd Hl3 Hr) as [j Hj].
      exists (2 + j)%nat. cbn [app plus].
      erewrite sp_iter_step; [|s_step]. cbn [tl].
      destruct (l ++ rest) as [|d i] eqn:Ei.
      * erewrite sp_iter_step; [|s_step]. rewrite Hj. cbn [singles_r]. unfold singles_r. cbn [map rev]. rewrite <- app_assoc. reflexivity.
      * cbn [next_ok] in Hn. erewrite sp_iter_step; [|s_step]. rewrite Hj. unfold singles_r. cbn [map rev]. rewrite <- app_assoc. reflexivity.
    + destruct (IH rest cu t (OChars [c] :: o) cd Hl3 Hr) as [j Hj].
      exists (S j). cbn [app]. erewrite sp_iter_step; [|s_step]. cbn [tl]. rewrite Hj.
      unfold singles_r. cbn [map rev]. rewrite <- app_assoc. reflexivity.
Qed.

(* the letters of the end tag's name go into the temporary buffer *)
Lemma raw_name : forall l rest cu t o cd, forallb is_alpha l = true ->
  sp_iter (length l) (mk_tk rawtextEndTagNameState (l ++ rest) cu t o cd false)
  = Some (mk_tk rawtextEndTagNameState rest cu (t ++ l) o cd false).
Proof.
  induction l as [|c l IH]; intros rest cu t o cd Hl.
  - cbn. rewrite app_nil_r. reflexivity.
  - cbn [forallb] in Hl. apply andb_true_iff in Hl as [Hc Hl]. cbn [length app].
    erewrite sp_iter_step.
    2:{ unfold is_alpha, is_lower, is_upper in Hc. s_step. }
    cbn [tl]. rewrite IH by exact Hl. rewrite <- app_assoc. reflexivity.
Qed.

Lemma raw_end_tag name rest a sc t o cd : name <> [] -> forallb is_alpha name = true ->
  exists j, sp_iter j (mk_tk rawtextState ([60; 47] ++ name ++ [62] ++ rest) (CTag false (lower_str name) a sc) t o cd false)
            = Some (mk_tk dataState rest (CTag true (lower_str name) [] false) name (OEnd (lower_str name) [] false :: o) cd false).
Proof.
  intros Hne Hn. destruct name as [|c0 n']; [contradiction Hne; reflexivity|].
  pose proof Hn as Hn0. cbn [forallb] in Hn0. apply andb_true_iff in Hn0 as [Hc0 _].
  assert (H1 : sp_iter 3 (mk_tk rawtextState ([60; 47] ++ (c0 :: n') ++ [62] ++ rest) (CTag false (lower_str (c0 :: n')) a sc) t o cd false)
               = Some (mk_tk rawtextEndTagNameState ((c0 :: n') ++ [62] ++ rest) (CTag false (lower_str (c0 :: n')) a sc) [] o cd false)).
  { cbn [app]. unfold is_alpha, is_lower, is_upper in Hc0. s_compute. reflexivity. }
  pose proof (raw_name (c0 :: n') ([62] ++ rest) (CTag false (lower_str (c0 :: n')) a sc) [] o cd Hn) as H2.
  exists (3 + (length (c0 :: n') + 1))%nat.
  erewrite sp_iter_app; [|exact H1]. erewrite sp_iter_app; [|exact H2]. cbn [app].
  erewrite sp_iter_step.
  2:{ unfold sp_step. cbv beta iota zeta delta [peek]. cbn [st inp hd_error].
      replace (62 =? 47) with false by reflexivity. replace (62 =? 62) with true by reflexivity.
      unfold appropriate. cbn [cur tmp]. rewrite str_eqb_refl. s_norm. reflexivity. }
  cbn [sp_iter tl]. reflexivity.
Qed.

(* a raw-text element's content and end tag, read back in place *)
Theorem rawtext_element_roundtrip name text rest a sc t o cd :
  name <> [] -> forallb is_alpha name = true -> raw_ok text = true ->
  exists j, sp_iter j (mk_tk rawtextState (text ++ [60; 47] ++ name ++ [62] ++ rest) (CTag false (lower_str name) a sc) t o cd false)
            = Some (mk_tk dataState rest (CTag true (lower_str name) [] false) name
                          (OEnd (lower_str name) [] false :: singles_r text ++ o) cd false).
Proof.
  intros Hne Hn Ht.
  destruct (raw_body text ([60; 47] ++ name ++ [62] ++ rest) (CTag false (lower_str name) a sc) t o cd Ht eq_refl) as [j1 H1].
  destruct (raw_end_tag name rest a sc t (singles_r text ++ o) cd Hne Hn) as [j2 H2].
  exists (j1 + j2)%nat. erewrite sp_iter_app; [|exact H1]. exact H2.
Qed.

(* the serializer's side: in a raw-text element text is written as it is, and "</" inside a text token is an error *)
Lemma ser_raw_text o s : ser_token o true (TChars s) = Some (true, s, if contains [60; 47] s then [E_lt_slash_in_cdata] else []).
Proof. reflexivity. Qed.

(* "</" as a substring, and raw_ok without the U+0000 clause, are the same thing *)
Lemma contains_lt_slash_cons c s : contains [60; 47] (c :: s) = ((c =? 60) && negb (next_ok s)) || contains [60; 47] s.
Proof.
  cbn [contains starts_with]. rewrite (N.eqb_sym 60 c). destruct s as [|d s]; cbn [next_ok].
  - rewrite !andb_false_r. reflexivity.
  - rewrite andb_true_r, (N.eqb_sym 47 d). destruct (c =? 60); cbn [andb orb]; [rewrite negb_involutive|]; reflexivity.
Qed.
Lemma no_lt_slash_raw_ok s : contains [60; 47] s = false -> forallb (fun c => negb (c =? 0)) s = true -> raw_ok s = true.
Proof.
  induction s as [|c s IH]; intros H1 H2; [reflexivity|].
  rewrite contains_lt_slash_cons in H1. apply orb_false_elim in H1 as [H1 H1']. cbn [forallb] in H2. apply andb_true_iff in H2 as [H2 H2'].
  cbn [raw_ok]. rewrite H2, (IH H1' H2'). destruct (c =? 60); cbn [andb] in *; [|reflexivity].
  apply negb_false_iff in H1. rewrite H1. reflexivity.
Qed.

(* ... so: no error reported for the text token, no U+0000 in it => it is read back exactly *)
Theorem rawtext_no_error_reads_back o name text rest a sc t out cd :
  name <> [] -> forallb is_alpha name = true -> forallb (fun c => negb (c =? 0)) text = true ->
  ser_token o true (TChars text) = Some (true, text, []) ->
  exists j, sp_iter j (mk_tk rawtextState (text ++ [60; 47] ++ name ++ [62] ++ rest) (CTag false (lower_str name) a sc) t out cd false)
            = Some (mk_tk dataState rest (CTag true (lower_str name) [] false) name
                          (OEnd (lower_str name) [] false :: singles_r text ++ out) cd false).
Proof.
  intros Hne Hn H0 Hs. rewrite ser_raw_text in Hs.
  destruct (contains [60; 47] text) eqn:Ec; [inversion Hs|].
  apply rawtext_element_roundtrip; [exact Hne|exact Hn|]. apply no_lt_slash_raw_ok; [exact Ec|exact H0].
Qed.

(* ---- script: the same, as long as the text also holds no "<!" (which would enter the escape states) ---- *)
Definition next_ok_script (i : str) : bool := match i with d :: _ => negb (d =? 47) && negb (d =? 33) | [] => true end.
Fixpoint script_ok (l : str) : bool :=
  match l with
  | [] => true
  | c :: r => negb (c =? 0) && (if c =? 60 then next_ok_script r else true) && script_ok r
  end.
Lemma next_ok_script_app r rest : (r = [] -> next_ok_script rest = true) -> (r <> [] -> next_ok_script r = true) ->
  next_ok_script (r ++ rest) = true.
Proof. destruct r as [|d r]; intros H1 H2; [apply H1; reflexivity|apply H2; discriminate]. Qed.

Lemma script_body : forall l rest cu t o cd, script_ok l = true -> next_ok_script rest = true ->
  exists j, sp_iter j (mk_tk scriptDataState (l ++ rest) cu t o cd false)
            = Some (mk_tk scriptDataState rest cu t (singles_r l ++ o) cd false).
Proof.
  induction l as [|c l IH]; intros rest cu t o cd Hl Hr.
  - exists 0%nat. reflexivity.
  - cbn [script_ok] in Hl. apply andb_true_iff in Hl as [Hl Hl3]. apply andb_true_iff in Hl as [Hl1 Hl2].
    destruct (c =? 60) eqn:Ec.
    + apply N.eqb_eq in Ec. subst c.
      assert (Hn : next_ok_script (l ++ rest) = true).
      { apply next_ok_script_app; [intros ->; exact Hr|intros _; exact Hl2]. }
      destruct (IH rest cu t (OChars [60] :: o) cd Hl3 Hr) as [j Hj].
      exists (2 + j)%nat. cbn [app plus].
      erewrite sp_iter_step; [|s_step]. cbn [tl].
      destruct (l ++ rest) as [|d i] eqn:Ei.
      * erewrite sp_iter_step; [|s_step]. rewrite Hj. unfold singles_r. cbn [map rev]. rewrite <- app_assoc. reflexivity.
      * cbn [next_ok_script] in Hn. apply andb_true_iff in Hn as [Hn1 Hn2].
        erewrite sp_iter_step; [|s_step]. rewrite Hj. unfold singles_r. cbn [map rev]. rewrite <- app_assoc. reflexivity.
    + destruct (IH rest cu t (OChars [c] :: o) cd Hl3 Hr) as [j Hj].
      exists (S j). cbn [app]. erewrite sp_iter_step; [|s_step]. cbn [tl]. rewrite Hj.
      unfold singles_r. cbn [map rev]. rewrite <- app_assoc. reflexivity.
Qed.

Lemma script_name : forall l rest cu t o cd, forallb is_alpha l = true ->
  sp_iter (length l) (mk_tk scriptDataEndTagNameState (l ++ rest) cu t o cd false)
  = Some (mk_tk scriptDataEndTagNameState rest cu (t ++ l) o cd false).
Proof.
  induction l as [|c l IH]; intros rest cu t o cd Hl.
  - cbn. rewrite app_nil_r. reflexivity.
  - cbn [forallb] in Hl. apply andb_true_iff in Hl as [Hc Hl]. cbn [length app].
    erewrite sp_iter_step.
    2:{ unfold is_alpha, is_lower, is_upper in Hc. s_step. }
    cbn [tl]. rewrite IH by exact Hl. rewrite <- app_assoc. reflexivity.
Qed.

Lemma script_end_tag name rest a sc t o cd : name <> [] -> forallb is_alpha name = true ->
  exists j, sp_iter j (mk_tk scriptDataState ([60; 47] ++ name ++ [62] ++ rest) (CTag false (lower_str name) a sc) t o cd false)
            = Some (mk_tk dataState rest (CTag true (lower_str name) [] false) name (OEnd (lower_str name) [] false :: o) cd false).
Proof.
  intros Hne Hn. destruct name as [|c0 n']; [contradiction Hne; reflexivity|].
  pose proof Hn as Hn0. cbn [forallb] in Hn0. apply andb_true_iff in Hn0 as [Hc0 _].
  assert (H1 : sp_iter 3 (mk_tk scriptDataState ([60; 47] ++ (c0 :: n') ++ [62] ++ rest) (CTag false (lower_str (c0 :: n')) a sc) t o cd false)
               = Some (mk_tk scriptDataEndTagNameState ((c0 :: n') ++ [62] ++ rest) (CTag false (lower_str (c0 :: n')) a sc) [] o cd false)).
  { cbn [app]. unfold is_alpha, is_lower, is_upper in Hc0. s_compute. reflexivity. }
  pose proof (script_name (c0 :: n') ([62] ++ rest) (CTag false (lower_str (c0 :: n')) a sc) [] o cd Hn) as H2.
  exists (3 + (length (c0 :: n') + 1))%nat.
  erewrite sp_iter_app; [|exact H1]. erewrite sp_iter_app; [|exact H2]. cbn [app].
  erewrite sp_iter_step.
  2:{ unfold sp_step. cbv beta iota zeta delta [peek]. cbn [st inp hd_error].
      replace (62 =? 47) with false by reflexivity. replace (62 =? 62) with true by reflexivity.
      unfold appropriate. cbn [cur tmp]. rewrite str_eqb_refl. s_norm. reflexivity. }
  cbn [sp_iter tl]. reflexivity.
Qed.

Theorem script_element_roundtrip name text rest a sc t o cd :
  name <> [] -> forallb is_alpha name = true -> script_ok text = true ->
  exists j, sp_iter j (mk_tk scriptDataState (text ++ [60; 47] ++ name ++ [62] ++ rest) (CTag false (lower_str name) a sc) t o cd false)
            = Some (mk_tk dataState rest (CTag true (lower_str name) [] false) name
                          (OEnd (lower_str name) [] false :: singles_r text ++ o) cd false).
Proof.
  intros Hne Hn Ht.
  destruct (script_body text ([60; 47] ++ name ++ [62] ++ rest) (CTag false (lower_str name) a sc) t o cd Ht eq_refl) as [j1 H1].
  destruct (script_end_tag name rest a sc t (singles_r text ++ o) cd Hne Hn) as [j2 H2].
  exists (j1 + j2)%nat. erewrite sp_iter_app; [|exact H1]. exact H2.
Qed.

(* ... and the hypothesis cannot simply be dropped: the text "<!--<script>" is read back together with the end tag and
   everything after it (html5lib reports no error for it: known finding C08-script-comment-like-text) *)
Example script_swallows_its_end_tag :
  let k := mk_tk scriptDataState ([60;33;45;45;60;115;99;114;105;112;116;62] ++ [60;47;115;99;114;105;112;116;62] ++ [60;112;62;120])
                 (CTag false [115;99;114;105;112;116] [] false) [] [] false false in
  match sp_run 200 k with
  | Some k' => existsb (fun t => match t with OEnd _ _ _ => true | OStart _ _ _ => true | _ => false end) (out k')
  | None => true
  end = false.
Proof. vm_compute. reflexivity. Qed.

(* ---- RCDATA elements (title, textarea): the text is written escaped and read back with references decoded ---- *)
Lemma rcdata_step_amp i c tm o cd b :
  sp_step (mk_tk rcdataState (38 :: i) c tm o cd b) = (charref_text (mk_tk rcdataState i c tm o cd b), true).
Proof. reflexivity. Qed.
Lemma rcdata_step_other x i c tm o cd b : (x =? 38) = false -> (x =? 60) = false -> (x =? 0) = false ->
  sp_step (mk_tk rcdataState (x :: i) c tm o cd b) = (mk_tk rcdataState i c tm (OChars [x] :: o) cd b, true).
Proof.
  intros H1 H2 H3. unfold sp_step. cbv [peek advance set_inp]. cbn [st inp hd_error tl cur tmp out cdata_ok bad].
  rewrite H1, H2. unfold nulfix. rewrite H3. reflexivity.
Qed.
Lemma charref_text_rcdata r x i c tm o cd b : spec_charref false i = ([x], r) ->
  charref_text (mk_tk rcdataState i c tm o cd b) = mk_tk rcdataState r c tm (OChars [x] :: o) cd b.
Proof. intro H. unfold charref_text. cbn [inp]. rewrite H. reflexivity. Qed.

Lemma rcdata_text_roundtrip : forall t rest c tm o cd b, forallb (fun c => negb (c =? 0)) t = true ->
  exists j, sp_iter j (mk_tk rcdataState (escape t ++ rest) c tm o cd b)
            = Some (mk_tk rcdataState rest c tm (singles_r t ++ o) cd b).
Proof.
  intros t rest c tm. rewrite escape_single_pass.
  induction t as [|x t IH]; intros o cd b H0.
  - exists 0%nat. reflexivity.
  - cbn [forallb] in H0. apply andb_true_iff in H0 as [Hx H0]. apply negb_true_iff in Hx.
    cbn [flat_map]. rewrite <- app_assoc.
    assert (Hs : sp_step (mk_tk rcdataState (esc1 x ++ flat_map esc1 t ++ rest) c tm o cd b)
                 = (mk_tk rcdataState (flat_map esc1 t ++ rest) c tm (OChars [x] :: o) cd b, true)).
    { unfold esc1 at 1.
      destruct (N.eqb_spec x 38) as [->|H38].
      { change (s_amp ++ flat_map esc1 t ++ rest) with (38 :: k_amp ++ flat_map esc1 t ++ rest).
        rewrite rcdata_step_amp. f_equal. apply charref_text_rcdata. apply charref_amp. }
      destruct (N.eqb_spec x 60) as [->|H60].
      { change (s_lt ++ flat_map esc1 t ++ rest) with (38 :: k_lt ++ flat_map esc1 t ++ rest).
        rewrite rcdata_step_amp. f_equal. apply charref_text_rcdata. apply charref_lt. }
      destruct (N.eqb_spec x 62) as [->|H62].
      { change (s_gt ++ flat_map esc1 t ++ rest) with (38 :: k_gt ++ flat_map esc1 t ++ rest).
        rewrite rcdata_step_amp. f_equal. apply charref_text_rcdata. apply charref_gt. }
      apply rcdata_step_other; [apply N.eqb_neq; assumption|apply N.eqb_neq; assumption|exact Hx]. }
    destruct (IH (OChars [x] :: o) cd b H0) as [j Hj].
    exists (S j). cbn [sp_iter]. rewrite Hs. rewrite Hj. f_equal. f_equal.
    unfold singles_r. cbn [map rev]. rewrite <- app_assoc. reflexivity.
Qed.

Lemma rcdata_name : forall l rest cu t o cd, forallb is_alpha l = true ->
  sp_iter (length l) (mk_tk rcdataEndTagNameState (l ++ rest) cu t o cd false)
  = Some (mk_tk rcdataEndTagNameState rest cu (t ++ l) o cd false).
Proof.
  induction l as [|c l IH]; intros rest cu t o cd Hl.
  - cbn. rewrite app_nil_r. reflexivity.
  - cbn [forallb] in Hl. apply andb_true_iff in Hl as [Hc Hl]. cbn [length app].
    erewrite sp_iter_step.
    2:{ unfold is_alpha, is_lower, is_upper in Hc. s_step. }
    cbn [tl]. rewrite IH by exact Hl. rewrite <- app_assoc. reflexivity.
Qed.

Lemma rcdata_end_tag name rest a sc t o cd : name <> [] -> forallb is_alpha name = true ->
  exists j, sp_iter j (mk_tk rcdataState ([60; 47] ++ name ++ [62] ++ rest) (CTag false (lower_str name) a sc) t o cd false)
            = Some (mk_tk dataState rest (CTag true (lower_str name) [] false) name (OEnd (lower_str name) [] false :: o) cd false).
Proof.
  intros Hne Hn. destruct name as [|c0 n']; [contradiction Hne; reflexivity|].
  pose proof Hn as Hn0. cbn [forallb] in Hn0. apply andb_true_iff in Hn0 as [Hc0 _].
  assert (H1 : sp_iter 3 (mk_tk rcdataState ([60; 47] ++ (c0 :: n') ++ [62] ++ rest) (CTag false (lower_str (c0 :: n')) a sc) t o cd false)
               = Some (mk_tk rcdataEndTagNameState ((c0 :: n') ++ [62] ++ rest) (CTag false (lower_str (c0 :: n')) a sc) [] o cd false)).
  { cbn [app]. unfold is_alpha, is_lower, is_upper in Hc0. s_compute. reflexivity. }
  pose proof (rcdata_name (c0 :: n') ([62] ++ rest) (CTag false (lower_str (c0 :: n')) a sc) [] o cd Hn) as H2.
  exists (3 + (length (c0 :: n') + 1))%nat.
  erewrite sp_iter_app; [|exact H1]. erewrite sp_iter_app; [|exact H2]. cbn [app].
  erewrite sp_iter_step.
  2:{ unfold sp_step. cbv beta iota zeta delta [peek]. cbn [st inp hd_error].
      replace (62 =? 47) with false by reflexivity. replace (62 =? 62) with true by reflexivity.
      unfold appropriate. cbn [cur tmp]. rewrite str_eqb_refl. s_norm. reflexivity. }
  cbn [sp_iter tl]. reflexivity.
Qed.

(* ANY text without U+0000 in a title or textarea element: written escaped, read back exactly, then the end tag *)
Theorem rcdata_element_roundtrip name text rest a sc t o cd :
  name <> [] -> forallb is_alpha name = true -> forallb (fun c => negb (c =? 0)) text = true ->
  exists j, sp_iter j (mk_tk rcdataState (escape text ++ [60; 47] ++ name ++ [62] ++ rest) (CTag false (lower_str name) a sc) t o cd false)
            = Some (mk_tk dataState rest (CTag true (lower_str name) [] false) name
                          (OEnd (lower_str name) [] false :: singles_r text ++ o) cd false).
Proof.
  intros Hne Hn Ht.
  destruct (rcdata_text_roundtrip text ([60; 47] ++ name ++ [62] ++ rest) (CTag false (lower_str name) a sc) t o cd false Ht) as [j1 H1].
  destruct (rcdata_end_tag name rest a sc t (singles_r text ++ o) cd Hne Hn) as [j2 H2].
  exists (j1 + j2)%nat. erewrite sp_iter_app; [|exact H1]. exact H2.
Qed.
