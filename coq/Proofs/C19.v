From Coq Require Import NArith List Bool.
From Verif Require Import Sx Str Tok Tree.
From Verif.Gen Require Import Sax Consts.
From Verif.Model Require Import C19.
Import ListNotations.
Local Open Scope N_scope.

Notation walkH := (walk voidElements html_ns).
Notation wfH := (wf_node voidElements html_ns).
Notation is_voidH := (is_void voidElements html_ns).

(* ---------- the normal form a SAX consumer can recover: no comments/doctype, adjacent text merged ---------- *)
Fixpoint push_node (cur : list node) (n : node) : list node :=
  match n with
  | Text s => push_text s cur
  | Comm _ | Doct _ _ _ => cur
  | Elem ns nm a kids => Elem ns nm a (rev (fold_left push_node kids [])) :: cur
  end.
Definition norm (kids : list node) : list node := rev (fold_left push_node kids []).

(* ---------- frame ---------- *)
Definition is_body_event (e : event) : bool :=
  match e with EStartElem _ _ _ | EEndElem _ _ | EChars _ => true | _ => false end.

Lemma tok_events_body t evs : tok_events t = Some evs -> forallb is_body_event evs = true.
Proof. destruct t; cbn; intro H; inversion H; reflexivity. Qed.

Lemma body_events_body ts : forall evs, body_events ts = Some evs -> forallb is_body_event evs = true.
Proof.
  induction ts as [|t r IH]; cbn [body_events]; intros evs H.
  - inversion H. reflexivity.
  - destruct (tok_events t) eqn:E1; [|discriminate]. destruct (body_events r) eqn:E2; [|discriminate].
    inversion H. rewrite forallb_app. rewrite (tok_events_body _ _ E1), (IH _ eq_refl). reflexivity.
Qed.

Lemma sax_frame ts evs :
  Sax ts = Some evs ->
  exists b, body_events ts = Some b /\ forallb is_body_event b = true /\
    evs = [EStartDoc] ++ map (fun pn => EStartPrefix (fst pn) (snd pn)) prefix_mapping
          ++ b ++ map (fun pn => EEndPrefix (fst pn)) prefix_mapping ++ [EEndDoc].
Proof.
  unfold Sax. destruct (body_events ts) as [b|] eqn:E; [|discriminate].
  intro H. inversion H. exists b. repeat split. eapply body_events_body; exact E.
Qed.

Lemma body_events_app a b :
  body_events (a ++ b) =
  match body_events a, body_events b with Some x, Some y => Some (x ++ y) | _, _ => None end.
Proof.
  induction a as [|t r IH]; cbn [app body_events].
  - destruct (body_events b); reflexivity.
  - rewrite IH. destruct (tok_events t), (body_events r), (body_events b); try reflexivity.
    rewrite app_assoc. reflexivity.
Qed.

(* ---------- text ---------- *)
Lemma push_text_app a b cur : push_text b (push_text a cur) = push_text (a ++ b) cur.
Proof.
  destruct a as [|x a]; [reflexivity|]. destruct b as [|y b].
  - rewrite app_nil_r. reflexivity.
  - cbn [push_text app]. destruct cur as [|[| t | |] c]; cbn; try reflexivity.
    rewrite <- app_assoc. reflexivity.
Qed.

Definition optE (s : str) : list event := match s with [] => [] | _ => [EChars s] end.

Lemma rebuild_optE s rest stack cur :
  rebuild_go (optE s ++ rest) stack cur = rebuild_go rest stack (push_text s cur).
Proof. destruct s; reflexivity. Qed.

Lemma text_split s :
  let l := take_while is_space s in
  let m0 := drop_while is_space s in
  let m := rev (drop_while is_space (rev m0)) in
  let r := rev (take_while is_space (rev m0)) in
  l ++ m ++ r = s.
Proof.
  cbv zeta. rewrite <- rev_app_distr, take_drop_while, rev_involutive. apply take_drop_while.
Qed.

Lemma text_tokens_events s :
  exists l m r, l ++ m ++ r = s /\
    body_events (text_tokens s) = Some (optE l ++ optE m ++ optE r).
Proof.
  exists (take_while is_space s), (rev (drop_while is_space (rev (drop_while is_space s)))),
         (rev (take_while is_space (rev (drop_while is_space s)))).
  split; [apply text_split|]. unfold text_tokens.
  destruct (take_while is_space s);
  destruct (rev (drop_while is_space (rev (drop_while is_space s))));
  destruct (rev (take_while is_space (rev (drop_while is_space s)))); reflexivity.
Qed.

(* ---------- main simulation lemma ---------- *)
Definition sim (n : node) : Prop :=
  wfH n = true ->
  exists evs, body_events (walkH n) = Some evs /\
    forall rest stack cur, rebuild_go (evs ++ rest) stack cur = rebuild_go rest stack (push_node cur n).

Lemma sim_list kids :
  Forall sim kids -> forallb wfH kids = true ->
  exists evs, body_events (flat_map walkH kids) = Some evs /\
    forall rest stack cur, rebuild_go (evs ++ rest) stack cur = rebuild_go rest stack (fold_left push_node kids cur).
Proof.
  induction kids as [|k r IH]; intros HF Hw.
  - exists []. split; reflexivity.
  - inversion HF as [|? ? Hk Hr]; subst. cbn [forallb] in Hw. apply andb_true_iff in Hw as [Hw1 Hw2].
    destruct (Hk Hw1) as [e1 [E1 S1]]. destruct (IH Hr Hw2) as [e2 [E2 S2]].
    exists (e1 ++ e2). split.
    + cbn [flat_map]. rewrite body_events_app, E1, E2. reflexivity.
    + intros rest stack cur. rewrite <- app_assoc, S1, S2. reflexivity.
Qed.

Lemma sim_all n : sim n.
Proof.
  induction n as [ns name a kids IH | s | s | dn dp ds] using node_ind'; unfold sim; intro Hw.
  - cbn [wf_node] in Hw. apply andb_true_iff in Hw as [Hv Hk]. cbn [walk].
    destruct (is_voidH ns name) eqn:V.
    + destruct kids as [|k kids]; [|discriminate].
      exists [EStartElem ns name a; EEndElem ns name]. split; [reflexivity|].
      intros rest stack cur. cbn [app rebuild_go].
      assert (E : opt_str_eqb ns ns && str_eqb name name = true).
      { apply andb_true_iff; split; [apply opt_str_eqb_eq; reflexivity | apply str_eqb_refl]. }
      rewrite E. reflexivity.
    + destruct (sim_list kids IH Hk) as [ek [Ek Sk]].
      exists (EStartElem ns name a :: ek ++ [EEndElem ns name]). split.
      * change (TStart ns name a :: flat_map walkH kids ++ [TEnd ns name])
          with ([TStart ns name a] ++ flat_map walkH kids ++ [TEnd ns name]).
        rewrite !body_events_app, Ek. reflexivity.
      * intros rest stack cur. cbn [app rebuild_go]. rewrite <- app_assoc, Sk. cbn [app rebuild_go].
        assert (E : opt_str_eqb ns ns && str_eqb name name = true).
        { apply andb_true_iff; split; [apply opt_str_eqb_eq; reflexivity | apply str_eqb_refl]. }
        rewrite E. reflexivity.
  - destruct (text_tokens_events s) as [l [m [r [Hs He]]]].
    exists (optE l ++ optE m ++ optE r). split; [exact He|].
    intros rest stack cur. rewrite <- !app_assoc, !rebuild_optE, !push_text_app.
    rewrite Hs. reflexivity.
  - exists []. split; reflexivity.
  - exists []. split; reflexivity.
Qed.

Lemma rebuild_skip_starts (l : list (str * str)) rest stack cur :
  rebuild_go (map (fun pn => EStartPrefix (fst pn) (snd pn)) l ++ rest) stack cur = rebuild_go rest stack cur.
Proof. induction l as [|x l IH]; cbn; [reflexivity | exact IH]. Qed.
Lemma rebuild_skip_ends (l : list (str * str)) rest stack cur :
  rebuild_go (map (fun pn => EEndPrefix (fst pn)) l ++ rest) stack cur = rebuild_go rest stack cur.
Proof. induction l as [|x l IH]; cbn; [reflexivity | exact IH]. Qed.

Theorem sax_tree kids :
  forallb wfH kids = true ->
  exists evs, Sax (walk_all voidElements html_ns kids) = Some evs /\ sax_rebuild evs = Some (norm kids).
Proof.
  intro Hw.
  assert (HF : Forall sim kids) by (apply Forall_forall; intros; apply sim_all).
  destruct (sim_list kids HF Hw) as [b [Eb Sb]].
  unfold Sax, walk_all. rewrite Eb. eexists. split; [reflexivity|].
  unfold sax_rebuild. cbn [rebuild_go]. rewrite rebuild_skip_starts, Sb, rebuild_skip_ends. reflexivity.
Qed.

(* ---------- totality on walker streams without SerializeError/Entity ---------- *)
Lemma sax_total ts :
  forallb (fun t => match t with TEntity _ | TSerErr _ | TOther _ => false | _ => true end) ts = true ->
  exists evs, Sax ts = Some evs.
Proof.
  intro H. unfold Sax.
  assert (exists b, body_events ts = Some b) as [b ->]; [|eexists; reflexivity].
  induction ts as [|t r IH]; [eexists; reflexivity|].
  cbn [forallb] in H. apply andb_true_iff in H as [H1 H2]. destruct (IH H2) as [b Hb].
  cbn [body_events]. rewrite Hb. destruct t; try discriminate; eexists; reflexivity.
Qed.

(* ---------- qualified names of the foreign attributes the parser can create ---------- *)
Definition colon : str := [58].
Definition qname_ok (e : str * (option str * str * str)) : bool :=
  let '(q, (pfx, local, ns)) := e in
  match qname (Some ns, local) with
  | Some q' =>
      str_eqb q' q &&
      match pfx with
      | Some p => str_eqb q (p ++ colon ++ local) &&
                  existsb (fun pn => str_eqb (fst pn) p && str_eqb (snd pn) ns) prefix_mapping
      | None => str_eqb q local
      end
  | None => false
  end.

Lemma sax_qnames_ok : forallb qname_ok adjustForeignAttributes = true.
Proof. vm_compute. reflexivity. Qed.

Lemma prefix_mapping_nodup : NoDup (map fst prefix_mapping).
Proof. repeat constructor; cbn; intuition discriminate. Qed.
