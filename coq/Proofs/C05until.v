(* C05 -- charsUntil: nothing is lost or reordered, and the reported position stays the position of the consumed
   characters, for every segmentation; mixed sequences of char() and charsUntil() calls. *)
From Coq Require Import NArith List Bool Lia Arith.
From Verif Require Import Sx Str Tok.
From Verif.Model Require Import C05.
From Verif.Proofs Require Import C05 C05pos.
Import ListNotations.
Local Open Scope N_scope.

Lemma take_while_length f (s : str) : (length (take_while f s) <= length s)%nat.
Proof. induction s as [|x s IH]; cbn; [lia|]. destruct (f x); cbn; lia. Qed.

Lemma take_while_prefix f (s : str) : exists r, s = take_while f s ++ r.
Proof.
  induction s as [|x s [r IH]]; cbn; [exists []; reflexivity|].
  destruct (f x); [exists r; cbn; f_equal; exact IH | exists (x :: s); reflexivity].
Qed.

Lemma take_while_all_eq f (s : str) : length (take_while f s) = length s -> take_while f s = s.
Proof.
  intro H. destruct (take_while_prefix f s) as [r Hr]. assert (r = []).
  { apply (f_equal (@length N)) in Hr. rewrite app_length in Hr. destruct r; [reflexivity | cbn in Hr; lia]. }
  subst r. rewrite app_nil_r in Hr. symmetry. exact Hr.
Qed.

Lemma skipn_add {A} (a b : nat) (l : list A) : skipn a (skipn b l) = skipn (b + a) l.
Proof. revert l; induction b as [|b IH]; intros l; [reflexivity|]. destruct l; [rewrite !skipn_nil; reflexivity|]. cbn [skipn plus]. apply IH. Qed.

Lemma read_chunk_coff : forall f s, coff (fst (read_chunk f s)) = 0%nat.
Proof.
  induction f as [|f IH]; intro s; cbn [read_chunk]; destruct (position_at s (length (chunk s))) as [l c] eqn:Ep.
  - repeat (match goal with |- context [match ?x with _ => _ end] => destruct x end; cbn [fst coff]); reflexivity.
  - repeat (match goal with
            | |- context [read_chunk f ?s'] => fail 1
            | |- context [match ?x with _ => _ end] => destruct x
            end; cbn [fst coff]); try reflexivity.
    all: repeat (match goal with
                 | |- context [match ?x with _ => _ end] =>
                     lazymatch x with context [read_chunk] => fail | _ => destruct x end
                 end; cbn [fst coff]); try reflexivity.
    all: apply IH.
Qed.

(* a refill keeps the invariant wherever the cursor is: _position is taken at the end of the chunk *)
Lemma rc_PInv_any tot s : src_ok s -> PInv tot s -> let '(s1, ok) := rc s in ok = true -> PInv tot s1.
Proof.
  intros Hs [done [Ht [Hl [Hc Ho]]]]. pose proof (rc_spec s Hs) as R. pose proof (read_chunk_pos 2 s) as P.
  unfold rc in *. destruct (read_chunk 2 s) as [s1 ok]. cbn [fst] in P. intro Hok. subst ok.
  destruct R as [_ [R2 [_ R4]]].
  rewrite (position_at_spec s done (length (chunk s)) Hl Hc (le_n _)), firstn_all in P. inversion P as [[P1 P2]].
  exists (done ++ chunk s). split; [rewrite Ht, <- R4, <- app_assoc; reflexivity|].
  split; [exact P1|]. split; [exact P2|]. rewrite R2. lia.
Qed.

(* charsUntil with enough fuel (the refills are bounded by the characters still to come): what it returns followed
   by what remains is what was there, and the position invariant is kept *)
Lemma chars_until_inv tot : forall fuel inset s acc, (length (future s) < fuel)%nat -> src_ok s -> PInv tot s ->
  let '(s1, out) := chars_until fuel inset s acc in
  src_ok s1 /\ PInv tot s1 /\ acc ++ remaining s = out ++ remaining s1.
Proof.
  induction fuel as [|fuel IH]; intros inset s acc Hfu Hs HP; [lia|]. cbn [chars_until].
  set (restc := skipn (coff s) (chunk s)). set (run := take_while inset restc).
  destruct (negb (Nat.eqb (length run) (length restc))) eqn:Stop.
  - destruct HP as [done [Ht [Hl [Hc Ho]]]].
    pose proof (take_while_length inset restc) as Hlen. fold run in Hlen.
    assert (Hrl : length restc = (length (chunk s) - coff s)%nat) by (unfold restc; apply skipn_length).
    split; [exact Hs|]. split.
    + exists done. cbn [chunk future buf src pl pc coff]. repeat split; try assumption. lia.
    + unfold remaining, pending, future. cbn [chunk buf src coff]. fold restc.
      destruct (take_while_prefix inset restc) as [r Hr]. fold run in Hr.
      assert (Hsk : skipn (coff s + length run) (chunk s) = r).
      { rewrite <- skipn_add. fold restc. rewrite Hr at 1. rewrite skipn_app, skipn_all, Nat.sub_diag. reflexivity. }
      rewrite Hsk. rewrite Hr at 1. rewrite <- !app_assoc. reflexivity.
  - apply negb_false_iff, Nat.eqb_eq in Stop. apply take_while_all_eq in Stop. fold run in Stop.
    pose proof (rc_spec s Hs) as R. pose proof (rc_PInv_any tot s Hs HP) as P.
    pose proof (read_chunk_coff 2 s) as P0. pose proof (read_chunk_pos 2 s) as P2. unfold rc in *.
    destruct (read_chunk 2 s) as [s1 ok]. cbn [fst] in P0, P2. destruct R as [R1 R]. destruct ok.
    + destruct R as [R2 [R3 R4]]. specialize (P eq_refl).
      assert (Hfu1 : (length (future s1) < fuel)%nat).
      { apply (f_equal (@length N)) in R4. rewrite app_length in R4. destruct (chunk s1); [congruence|]. cbn [length] in R4. lia. }
      pose proof (IH inset s1 (acc ++ run) Hfu1 R1 P) as I.
      destruct (chars_until fuel inset s1 (acc ++ run)) as [s2 out]. destruct I as [I1 [I2 I3]].
      split; [exact I1|]. split; [exact I2|]. rewrite <- I3.
      unfold remaining at 1 2, pending. fold restc. rewrite R2. cbn [skipn]. rewrite R4, <- Stop, <- app_assoc. reflexivity.
    + destruct R as [R2 [R3 R4]]. split; [exact R1|]. split.
      * destruct HP as [done [Ht [Hl [Hc Ho]]]]. exists (done ++ chunk s).
        rewrite (position_at_spec s done (length (chunk s)) Hl Hc (le_n _)), firstn_all in P2. inversion P2 as [[P3 P4]].
        rewrite R2, R4, P0. cbn [length]. repeat split; try assumption; [|lia].
        rewrite Ht. unfold future at 1. fold (future s). rewrite R3, !app_nil_r. reflexivity.
      * unfold remaining, pending. fold restc. rewrite R2, R3, R4, skipn_nil, Stop, !app_nil_r. reflexivity.
Qed.

(* the documented use of unget: the character char() has just returned is put back (a peek); the stream is then
   where it was: same remaining characters, same position invariant *)
Lemma unget_after_char tot s : src_ok s -> PInv tot s ->
  match char s with
  | (s1, Some c) => let '(s2, ok) := unget (Some c) s1 in
                    ok = true /\ src_ok s2 /\ PInv tot s2 /\ remaining s2 = remaining s
  | (_, None) => True
  end.
Proof.
  intros Hs HP. pose proof (char_spec s Hs) as C. pose proof (char_PInv tot s Hs HP) as P.
  unfold char in *.
  destruct (if Nat.leb (length (chunk s)) (coff s) then rc s else (s, true)) as [s0 ok0].
  destruct ok0; [|exact I].
  destruct (nth_error (chunk s0) (coff s0)) as [c|] eqn:En; [|exact I].
  destruct C as [C1 C2]. cbn [unget coff chunk]. rewrite En, N.eqb_refl.
  split; [reflexivity|]. split; [exact C1|]. split.
  - destruct P as [done [Ht [Hl [Hc Ho]]]]. exists done. cbn [chunk future buf src pl pc coff] in *.
    repeat split; try assumption. lia.
  - rewrite C2. unfold remaining, pending, future. cbn [chunk buf src coff]. 
    assert (Hk : skipn (coff s0) (chunk s0) = c :: skipn (S (coff s0)) (chunk s0)).
    { clear -En. revert En. generalize (coff s0) as k. induction (chunk s0) as [|x l IH]; intros [|k] En; try discriminate.
      - inversion En; reflexivity.
      - cbn [nth_error] in En. cbn [skipn]. apply IH. exact En. }
    rewrite Hk. reflexivity.
Qed.

(* ---------- mixed sequences of char() and charsUntil() calls, up to the first EOF from char() ---------- *)
Inductive sop := SChar | SPeek | SUntil (inset : N -> bool).
Fixpoint run_sops (fuel : nat) (ops : list sop) (s : st) : st * str :=
  match ops with
  | [] => (s, [])
  | SChar :: r => match char s with
                  | (s1, Some c) => let '(s2, d) := run_sops fuel r s1 in (s2, c :: d)
                  | (_, None) => (s, [])
                  end
  | SPeek :: r => match char s with
                  | (s1, Some c) => run_sops fuel r (fst (unget (Some c) s1))
                  | (_, None) => (s, [])
                  end
  | SUntil f :: r => let '(s1, out) := chars_until fuel f s [] in
                     let '(s2, d) := run_sops fuel r s1 in (s2, out ++ d)
  end.

Lemma future_le_remaining s : (length (future s) <= length (remaining s))%nat.
Proof. unfold remaining. rewrite app_length. lia. Qed.

Lemma run_sops_inv tot fuel : (length tot < fuel)%nat -> forall ops s pre s' d,
  src_ok s -> PInv tot s -> tot = pre ++ remaining s -> run_sops fuel ops s = (s', d) ->
  src_ok s' /\ PInv tot s' /\ tot = (pre ++ d) ++ remaining s'.
Proof.
  intros Hfu. induction ops as [|o ops IH]; intros s pre s' d Hs HP Ht Hr; cbn [run_sops] in Hr.
  - injection Hr as <- <-. rewrite app_nil_r. auto.
  - destruct o as [| |f].
    + pose proof (char_spec s Hs) as C. pose proof (char_PInv tot s Hs HP) as P.
      destruct (char s) as [s1 [c|]].
      * destruct C as [C1 C2]. destruct (run_sops fuel ops s1) as [s2 d2] eqn:Er. injection Hr as <- <-.
        destruct (IH s1 (pre ++ [c]) s2 d2 C1 P) as [I1 [I2 I3]]; [rewrite Ht, C2, <- app_assoc; reflexivity | exact Er |].
        split; [exact I1|]. split; [exact I2|]. rewrite I3, <- !app_assoc. reflexivity.
      * injection Hr as <- <-. rewrite app_nil_r. auto.
    + pose proof (unget_after_char tot s Hs HP) as U.
      destruct (char s) as [s1 [c|]].
      * destruct (unget (Some c) s1) as [s2 ok]. destruct U as [_ [U1 [U2 U3]]]. cbn [fst] in Hr.
        apply (IH s2 pre s' d U1 U2); [rewrite U3; exact Ht | exact Hr].
      * injection Hr as <- <-. rewrite app_nil_r. auto.
    + assert (Hf : (length (future s) < fuel)%nat).
      { pose proof (future_le_remaining s). apply (f_equal (@length N)) in Ht. rewrite app_length in Ht. lia. }
      pose proof (chars_until_inv tot fuel f s [] Hf Hs HP) as U.
      destruct (chars_until fuel f s []) as [s1 out]. destruct U as [U1 [U2 U3]]. cbn [app] in U3.
      destruct (run_sops fuel ops s1) as [s2 d2] eqn:Er. injection Hr as <- <-.
      destruct (IH s1 (pre ++ out) s2 d2 U1 U2) as [I1 [I2 I3]]; [rewrite Ht, U3, <- app_assoc; reflexivity | exact Er |].
      split; [exact I1|]. split; [exact I2|]. rewrite I3, <- !app_assoc. reflexivity.
Qed.

(* THE theorem: after any sequence of char() and charsUntil() calls, for any segmentation of the input into reads,
   the characters delivered so far followed by what remains are the newline-normalised input, and position() is the
   (line, column) those delivered characters determine *)
Theorem position_after_chars_and_runs reads ops fuel s d :
  Forall (fun r => r <> []) reads -> (length (norm (concat reads)) < fuel)%nat ->
  run_sops fuel ops (init reads) = (s, d) ->
  norm (concat reads) = d ++ remaining s /\ position s = pos_of d.
Proof.
  intros Hr Hfu Hk. set (tot := norm (concat reads)) in *.
  assert (HP0 : PInv tot (init reads)).
  { exists []. unfold init, future. cbn [chunk buf src bufl app pl pc coff count_nl col after_last_nl length].
    repeat split; lia. }
  assert (Hrem0 : tot = [] ++ remaining (init reads)) by reflexivity.
  destruct (run_sops_inv tot fuel Hfu ops (init reads) [] s d Hr HP0 Hrem0 Hk) as [_ [HP Ht]]. cbn [app] in Ht.
  split; [exact Ht|].
  destruct (PInv_position tot s HP) as [consumed [Ht2 Hpos]].
  rewrite Hpos. f_equal. rewrite Ht in Ht2. apply app_inv_tail in Ht2. symmetry. exact Ht2.
Qed.

(* with the fuel the executable entry point (Model/C05.v: run_c05) gives charsUntil *)
Corollary position_after_chars_and_runs_entry reads ops s d :
  Forall (fun r => r <> []) reads ->
  run_sops (4 + length (concat reads)) ops (init reads) = (s, d) ->
  norm (concat reads) = d ++ remaining s /\ position s = pos_of d.
Proof.
  intros Hr. apply position_after_chars_and_runs; [exact Hr|].
  pose proof (norm_length (concat reads)). lia.
Qed.
