(* C02sim_b -- per-state simulation lemmas (M_tok state method vs S_tok), see Proofs/C02sim.v and C02simtac.v.
   Each lemma:  R m s -> st m = X -> wk m = true -> plain m = true -> simok s (step_X m). *)
From Coq Require Import NArith List Bool Arith Lia ZifyBool ZifyN.
From Verif Require Import Sx Str.
From Verif.Gen Require Import Entities Tokenizer.
From Verif.Model Require Import CharRef TokBase TokHand C02.
From Verif.Spec Require Import CharRef TokSpec.
From Verif.Proofs Require Import C02a C02dict C08 C02sim C02simtac.
Import ListNotations.
Local Open Scope N_scope.

Lemma sim_beforeAttributeValueState : forall m s, R m s -> st m = beforeAttributeValueState -> wk m = true -> plain m = true -> simok s (step_beforeAttributeValueState m).
Proof. sim_state step_beforeAttributeValueState. all: batch_goal_skip. Qed.

Lemma sim_entityDataState : forall m s, R m s -> st m = entityDataState -> wk m = true -> plain m = true -> simok s (step_entityDataState m).
Proof. sim_state step_entityDataState. Qed.

Lemma sim_rawtextEndTagOpenState : forall m s, R m s -> st m = rawtextEndTagOpenState -> wk m = true -> plain m = true -> simok s (step_rawtextEndTagOpenState m).
Proof. sim_state step_rawtextEndTagOpenState. Qed.

Lemma sim_rawtextLessThanSignState : forall m s, R m s -> st m = rawtextLessThanSignState -> wk m = true -> plain m = true -> simok s (step_rawtextLessThanSignState m).
Proof. sim_state step_rawtextLessThanSignState. Qed.

