(* C10lex -- the lexical half of C10 as one theorem: what HTMLSerializer(sanitize=True) writes for ANY walker
   stream is read back by the WHATWG tokenizer as exactly the sanitized stream -- text, and tags and attributes
   from the allow-lists, nothing else. *)
From Coq Require Import NArith List Bool Arith Lia.
From Verif Require Import Sx Str Tok.
From Verif.Gen Require Import Consts Sanitizer Serializer.
From Verif.Model Require Import CharRef TokBase Ser C09 C10.
From Verif.Spec Require Import TokSpec.
From Verif.Proofs Require Import C09 C10 C08 SpecTac C08comment C08doctype C08tag.
Import ListNotations.
Local Open Scope N_scope.

Lemma allowed_element_names_ok : forallb (fun k => tname_ok (snd k)) allowed_elements = true.
Proof. vm_compute. reflexivity. Qed.
Lemma allowed_attribute_names_ok : forallb (fun k => aname_ok (snd k)) allowed_attributes = true.
Proof. vm_compute. reflexivity. Qed.

Lemma element_allowed_name_ok ns name : element_allowed default_lists ns name = true -> tname_ok name = true.
Proof.
  unfold element_allowed. intro H. pose proof allowed_element_names_ok as F. rewrite forallb_forall in F.
  apply orb_true_iff in H as [H|H].
  - apply mem_key_In in H. exact (F _ H).
  - destruct ns; [discriminate|]. apply mem_key_In in H. exact (F _ H).
Qed.

Lemma san_attrs_keys css a : forallb (fun kv : attr => mem_key (fst kv) (l_attributes default_lists)) (san_attrs default_lists css a) = true.
Proof.
  unfold san_attrs. apply forallb_forall. intros kv H.
  apply in_map_iff in H as [kv1 [<- H]]. assert (Hk : mem_key (fst kv1) (l_attributes default_lists) = true).
  { apply in_map_iff in H as [kv2 [<- H]]. apply filter_In in H as [H _]. apply filter_In in H as [_ H].
    destruct (mem_key (fst kv2) (l_ref_attrs default_lists)); exact H. }
  destruct (akey_eqb (fst kv1) style_key); exact Hk.
Qed.
Lemma san_attrs_names_ok css a : forallb (fun x : attr => aname_ok (snd (fst x))) (san_attrs default_lists css a) = true.
Proof.
  apply forallb_forall. intros kv H. pose proof (san_attrs_keys css a) as K. rewrite forallb_forall in K.
  specialize (K kv H). apply mem_key_In in K.
  pose proof allowed_attribute_names_ok as F. rewrite forallb_forall in F. exact (F _ K).
Qed.

(* what a tree walker produces (any names, any attributes, any text) *)
Definition walker_tok (t : token) : Prop :=
  match t with
  | TChars _ | TStart _ _ _ | TEnd _ _ | TEmpty _ _ _ | TComment _ => True
  | TSpace s => forallb is_space s = true
  | TDoctype (Some n) pub sys =>
      dname_ok n = true /\ (nonempty pub = true -> id_ok (oget pub) = true) /\ (nonempty sys = true -> id_ok (oget sys) = true)
  | _ => False
  end.

Lemma sanitized_is_safe o css ts : Forall walker_tok ts -> Forall (safe_tok o) (San default_lists css ts).
Proof.
  induction ts as [|t ts IH]; intro H; [constructor|]. inversion H as [|? ? Ht Hts]; subst.
  unfold San. cbn [flat_map]. fold (San default_lists css ts).
  destruct t as [dn dp ds|s|s|ns name a|ns name|ns name a|d|en|er|ty]; cbn [walker_tok] in Ht; try contradiction;
    cbn [sanitize app]; try (constructor; [|apply IH; exact Hts]); try (apply IH; exact Hts).
  - destruct dn; [exact Ht|contradiction].
  - exact I.
  - exact Ht.
  - destruct (element_allowed default_lists ns name) eqn:Ea; cbn [safe_tok disallowed]; [|exact I].
    split; [exact (element_allowed_name_ok _ _ Ea)|]. split; [rewrite (element_allowed_not_rcdata _ _ Ea); reflexivity|].
    apply san_attrs_names_ok.
  - destruct (element_allowed default_lists ns name) eqn:Ea; cbn [safe_tok disallowed]; [|exact I].
    exact (element_allowed_name_ok _ _ Ea).
  - destruct (element_allowed default_lists ns name) eqn:Ea; cbn [safe_tok disallowed]; [|exact I].
    split; [exact (element_allowed_name_ok _ _ Ea)|]. split; [rewrite (element_allowed_not_rcdata _ _ Ea); reflexivity|].
    apply san_attrs_names_ok.
Qed.

Theorem sanitized_output_reads_back o : qc_ok o -> forall ts txt errs rest cu tm out cd,
  Forall walker_tok ts -> san_ser o ts = Some (txt, errs) ->
  exists j cu', sp_iter j (mk_tk dataState (txt ++ rest) cu tm out cd false)
                = Some (mk_tk dataState rest cu' tm (rev (flat_map (rd_tok o) (san_default ts)) ++ out) cd false).
Proof.
  intros Hq ts txt errs rest cu tm out cd Hw Hs. unfold san_ser, Ser in Hs.
  exact (stream_roundtrip o Hq _ txt errs rest cu tm out cd (sanitized_is_safe o _ ts Hw) Hs).
Qed.

(* ... and every token S_tok reads back is text, or a tag whose name and attribute names come from the allow-lists *)
Definition from_lists (t : otok) : Prop :=
  match t with
  | OChars _ => True
  | OStart n a _ => (exists k, In k allowed_elements /\ n = lower_str (snd k)) /\
                    Forall (fun kv : str * str => exists k, In k allowed_attributes /\ fst kv = lower_str (snd k)) a
  | OEnd n _ _ => exists k, In k allowed_elements /\ n = lower_str (snd k)
  | ODoctype _ _ _ _ => True
  | _ => False
  end.

Lemma first_wins_subset : forall (l : pairs) seen x, In x (first_wins seen l) -> In x l.
Proof.
  induction l as [|[n v] l IH]; intros seen x H; [exact H|]. cbn [first_wins] in H.
  destruct (mem_str n seen); [right; exact (IH _ _ H)|]. destruct H as [H|H]; [left; exact H|right; exact (IH _ _ H)].
Qed.
Lemma element_allowed_in ns name : element_allowed default_lists ns name = true ->
  exists k, In k allowed_elements /\ lower_str name = lower_str (snd k).
Proof.
  unfold element_allowed. intro H. apply orb_true_iff in H as [H|H].
  - apply mem_key_In in H. eexists; split; [exact H|reflexivity].
  - destruct ns; [discriminate|]. apply mem_key_In in H. eexists; split; [exact H|reflexivity].
Qed.

Theorem read_back_tokens_are_allowed o css ts : Forall walker_tok ts ->
  Forall from_lists (flat_map (rd_tok o) (San default_lists css ts)).
Proof.
  induction ts as [|t ts IH]; intro H; [constructor|]. inversion H as [|? ? Ht Hts]; subst.
  unfold San. cbn [flat_map]. fold (San default_lists css ts).
  assert (Hchars : forall s, Forall from_lists (map (fun c => OChars [c]) s)) by (intro s; apply Forall_forall; intros x Hx; apply in_map_iff in Hx as [c [<- _]]; exact I).
  assert (Hattrs : forall n a, Forall (fun kv : str * str => exists k, In k allowed_attributes /\ fst kv = lower_str (snd k))
                                 (first_wins [] (map (rd_attr o n) (san_attrs default_lists css a)))).
  { intros n a. apply Forall_forall. intros kv Hkv. apply first_wins_subset in Hkv. apply in_map_iff in Hkv as [x [<- Hx]].
    pose proof (san_attrs_keys css a) as K. rewrite forallb_forall in K. specialize (K x Hx). apply mem_key_In in K.
    exists (fst x). split; [exact K|reflexivity]. }
  destruct t as [dn dp ds|s|s|ns name a|ns name|ns name a|d|en|er|ty]; cbn [walker_tok] in Ht; try contradiction;
    cbn [sanitize app flat_map]; try (apply IH; exact Hts).
  - destruct dn; [|contradiction]. cbn [rd_tok app]. constructor; [exact I|apply IH; exact Hts].
  - cbn [rd_tok]. apply Forall_app. split; [apply Hchars|apply IH; exact Hts].
  - cbn [rd_tok]. apply Forall_app. split; [apply Hchars|apply IH; exact Hts].
  - destruct (element_allowed default_lists ns name) eqn:Ea; cbn [disallowed rd_tok app].
    + constructor; [|apply IH; exact Hts]. split; [exact (element_allowed_in _ _ Ea)|apply Hattrs].
    + apply Forall_app. split; [apply Hchars|apply IH; exact Hts].
  - destruct (element_allowed default_lists ns name) eqn:Ea; cbn [disallowed rd_tok app].
    + constructor; [|apply IH; exact Hts]. exact (element_allowed_in _ _ Ea).
    + apply Forall_app. split; [apply Hchars|apply IH; exact Hts].
  - destruct (element_allowed default_lists ns name) eqn:Ea; cbn [disallowed rd_tok app].
    + constructor; [|apply IH; exact Hts]. split; [exact (element_allowed_in _ _ Ea)|apply Hattrs].
    + apply Forall_app. split; [apply Hchars|apply IH; exact Hts].
Qed.
