(* C02sim_d -- per-state simulation lemmas (M_tok state method vs S_tok), see Proofs/C02sim.v and C02simtac.v.
   Each lemma:  R m s -> st m = X -> wk m = true -> plain m = true -> simok s (step_X m). *)
From Coq Require Import NArith List Bool Arith Lia ZifyBool ZifyN.
From Verif Require Import Sx Str.
From Verif.Gen Require Import Entities Tokenizer.
From Verif.Model Require Import CharRef TokBase TokHand C02.
From Verif.Spec Require Import CharRef TokSpec.
From Verif.Proofs Require Import C02a C02dict C08 C02sim C02simtac.
Import ListNotations.
Local Open Scope N_scope.

Lemma sim_afterAttributeNameState : forall m s, R m s -> st m = afterAttributeNameState -> wk m = true -> plain m = true -> simok s (step_afterAttributeNameState m).
Proof. sim_state step_afterAttributeNameState. all: batch_goal_skip. Qed.

Lemma sim_attributeValueSingleQuotedState : forall m s, R m s -> st m = attributeValueSingleQuotedState -> wk m = true -> plain m = true -> simok s (step_attributeValueSingleQuotedState m).
Proof. sim_state step_attributeValueSingleQuotedState. all: (batch_goal batch_val). Qed.

Lemma sim_dataState : forall m s, R m s -> st m = dataState -> wk m = true -> plain m = true -> simok s (step_dataState m).
Proof. sim_state step_dataState. all: (batch_goal batch_emit). Qed.

Lemma sim_plaintextState : forall m s, R m s -> st m = plaintextState -> wk m = true -> plain m = true -> simok s (step_plaintextState m).
Proof. sim_state step_plaintextState. all: (batch_goal batch_emit). Qed.

Lemma sim_rawtextEndTagNameState : forall m s, R m s -> st m = rawtextEndTagNameState -> wk m = true -> plain m = true -> simok s (step_rawtextEndTagNameState m).
Proof. sim_state step_rawtextEndTagNameState. Qed.

Lemma sim_scriptDataEscapedDashDashState : forall m s, R m s -> st m = scriptDataEscapedDashDashState -> wk m = true -> plain m = true -> simok s (step_scriptDataEscapedDashDashState m).
Proof. sim_state step_scriptDataEscapedDashDashState. Qed.

Lemma sim_tagOpenState : forall m s, R m s -> st m = tagOpenState -> wk m = true -> plain m = true -> simok s (step_tagOpenState m).
Proof. sim_state step_tagOpenState. Qed.

