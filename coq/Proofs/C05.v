From Coq Require Import NArith List Bool Arith Lia.
From Verif Require Import Sx Str Tok.
From Verif.Gen Require Import InputStream.
From Verif.Model Require Import C05.
Import ListNotations.
Local Open Scope N_scope.

(* ---------- newline normalisation distributes over a cut, unless the cut separates CR from LF ---------- *)
Definition cut_ok (a b : str) : Prop := last a 0 <> 13 \/ hd 0 b <> 10.

Lemma norm_cons_not13 c r : (c =? 13) = false -> norm (c :: r) = c :: norm r.
Proof. intro H. cbn [norm]. rewrite H. reflexivity. Qed.
Lemma norm_13_10 r : norm (13 :: 10 :: r) = 10 :: norm r.
Proof. reflexivity. Qed.
Lemma norm_13_other r : hd 0 r <> 10 -> norm (13 :: r) = 10 :: norm r.
Proof.
  intro H. cbn [norm]. replace (13 =? 13) with true by reflexivity.
  destruct r as [|x r']; [reflexivity|]. cbn [hd] in H.
  assert (E : (x =? 10) = false) by (apply N.eqb_neq; exact H). rewrite E. reflexivity.
Qed.

Lemma norm_app_n : forall n a b, (length a <= n)%nat -> cut_ok a b -> norm (a ++ b) = norm a ++ norm b.
Proof.
  induction n as [|n IH]; intros a b Hl Hc.
  - destruct a; [reflexivity | cbn in Hl; lia].
  - destruct a as [|c a']; [reflexivity|]. cbn [length] in Hl.
    destruct (c =? 13) eqn:E.
    + apply N.eqb_eq in E. subst c. destruct a' as [|c2 a''].
      * cbn [app]. destruct Hc as [Hc|Hc]; [exfalso; apply Hc; reflexivity|].
        rewrite (norm_13_other b Hc). reflexivity.
      * destruct (N.eqb_spec c2 10) as [->|Hne].
        -- cbn [app]. rewrite !norm_13_10. cbn [app]. f_equal. apply IH; [cbn [length] in Hl; lia|].
           destruct Hc as [Hc|Hc]; [left|right; exact Hc]. destruct a''; [cbn; discriminate | exact Hc].
        -- cbn [app]. rewrite (norm_13_other (c2 :: a'' ++ b)) by (cbn; exact Hne).
           rewrite (norm_13_other (c2 :: a'')) by (cbn; exact Hne). cbn [app]. f_equal.
           apply (IH (c2 :: a'') b); [lia|]. destruct Hc as [Hc|Hc]; [left; exact Hc | right; exact Hc].
    + cbn [app]. rewrite !norm_cons_not13 by exact E. cbn [app]. f_equal. apply IH; [lia|].
      destruct Hc as [Hc|Hc]; [|right; exact Hc]. destruct a' as [|c2 a'']; [left; cbn; discriminate | left; exact Hc].
Qed.

Lemma norm_app a b : cut_ok a b -> norm (a ++ b) = norm a ++ norm b.
Proof. apply (norm_app_n (length a)). apply le_n. Qed.

Lemma norm_length s : (length (norm s) <= length s)%nat.
Proof.
  assert (G : forall n s, (length s <= n)%nat -> (length (norm s) <= length s)%nat).
  { induction n as [|n IH]; intros s0 Hl; [destruct s0; [cbn; lia | cbn in Hl; lia]|].
    destruct s0 as [|c r]; [cbn; lia|]. cbn [length] in Hl. cbn [norm].
    destruct (c =? 13); cbn [length].
    - destruct r as [|x r']; [cbn; lia|]. cbn [length] in Hl.
      destruct (x =? 10).
      + specialize (IH r' ltac:(lia)). cbn [length]. lia.
      + specialize (IH (x :: r') ltac:(cbn [length]; lia)). lia.
    - specialize (IH r ltac:(lia)). lia. }
  apply (G (length s)). apply le_n.
Qed.

Lemma norm_nonempty s : s <> [] -> norm s <> [].
Proof. destruct s as [|c r]; [contradiction|]. intros _. cbn [norm]. destruct (c =? 13); discriminate. Qed.

(* ---------- what the stream still has to deliver ---------- *)
Definition bufl (b : option N) : str := match b with Some x => [x] | None => [] end.
Definition future (s : st) : str := norm (bufl (buf s) ++ concat (src s)).
Definition pending (s : st) : str := skipn (coff s) (chunk s).
Definition remaining (s : st) : str := pending s ++ future s.
Definition src_ok (s : st) : Prop := Forall (fun d => d <> []) (src s).

Lemma last_removelast (l : str) : l <> [] -> l = removelast l ++ [last l 0].
Proof. apply app_removelast_last. Qed.

Lemma carried_not_lf x : carried x = true -> x <> 10.
Proof. unfold carried. intro H. intro E. subst. discriminate. Qed.

(* a refill with a carried character waiting always succeeds at once (no second read needed) *)
Lemma rc_some f s x : buf s = Some x -> src_ok s ->
  let '(s1, ok) := read_chunk f s in
  src_ok s1 /\ ok = true /\ coff s1 = 0%nat /\ chunk s1 <> [] /\ chunk s1 ++ future s1 = future s.
Proof.
  intros Eb Hs. unfold src_ok in *.
  assert (U : read_chunk f s = read_chunk 0 s).
  { destruct f; [reflexivity|]. cbn [read_chunk]. rewrite Eb.
    destruct (position_at s (length (chunk s))) as [l c].
    destruct (src s) as [|d rest]; [reflexivity|].
    destruct d as [|d0 d']; [reflexivity|]. cbn [negb andb].
    destruct (carried (last (x :: d0 :: d') 0)); [|reflexivity].
    destruct (removelast (x :: d0 :: d')) eqn:Er; [|reflexivity].
    cbn in Er. destruct d'; discriminate. }
  rewrite U. cbn [read_chunk]. rewrite Eb.
  destruct (position_at s (length (chunk s))) as [l c].
  destruct (src s) as [|d rest] eqn:Esrc.
  - cbn [last removelast negb andb].
    split; [constructor|]. split; [reflexivity|]. split; [reflexivity|].
    split; [cbn [chunk norm]; destruct (x =? 13); discriminate|].
    unfold future. cbn [chunk buf src bufl concat app]. rewrite Eb, Esrc. cbn [bufl concat app].
    rewrite app_nil_r. reflexivity.
  - inversion Hs as [|? ? Hd Hrest]; subst. destruct d as [|d0 d']; [contradiction|]. cbn [negb andb].
    set (data1 := x :: d0 :: d').
    assert (Hd1 : data1 <> []) by discriminate.
    assert (Hfut : future s = norm (data1 ++ concat rest)).
    { unfold future, data1. rewrite Esrc, Eb. cbn [bufl concat app]. rewrite <- ?app_assoc. reflexivity. }
    destruct (carried (last data1 0)) eqn:Ec.
    + assert (Hr : removelast data1 <> []) by (unfold data1; cbn; destruct d'; discriminate).
      destruct (removelast data1) as [|r0 r'] eqn:Er; [contradiction|].
      split; [exact Hrest|]. split; [reflexivity|]. split; [reflexivity|].
      split; [cbn [chunk]; apply norm_nonempty; discriminate|].
      assert (Hsplit : data1 ++ concat rest = (r0 :: r') ++ ([last data1 0] ++ concat rest))
        by (rewrite <- Er, app_assoc, <- (last_removelast data1 Hd1); reflexivity).
      rewrite Hfut, Hsplit. unfold future. cbn [chunk buf src bufl].
      rewrite (norm_app (r0 :: r') ([last data1 0] ++ concat rest)); [reflexivity|].
      right. cbn [app hd]. apply carried_not_lf. exact Ec.
    + split; [exact Hrest|]. split; [reflexivity|]. split; [reflexivity|].
      split; [cbn [chunk]; apply norm_nonempty; exact Hd1|].
      rewrite Hfut. unfold future. cbn [chunk buf src bufl app]. symmetry. apply norm_app.
      left. intro E13. unfold carried in Ec. rewrite E13 in Ec. discriminate.
Qed.

(* one successful refill delivers a non-empty chunk and leaves the total unchanged; a failed one means the end *)
Lemma rc_spec s : src_ok s ->
  let '(s1, ok) := rc s in
  src_ok s1 /\
  if ok then coff s1 = 0%nat /\ chunk s1 <> [] /\ chunk s1 ++ future s1 = future s
  else chunk s1 = [] /\ future s = [] /\ future s1 = [].
Proof.
  intro Hs. destruct (buf s) as [b|] eqn:Eb.
  - pose proof (rc_some 2 s b Eb Hs) as R. unfold rc. destruct (read_chunk 2 s) as [s1 ok].
    destruct R as [R1 [-> [R2 [R3 R4]]]]. auto.
  - unfold rc. unfold src_ok in *. set (one := 1%nat).
    change (read_chunk 2 s) with (read_chunk (S one) s). clearbody one. cbn [read_chunk]. rewrite Eb.
    destruct (position_at s (length (chunk s))) as [l c].
    destruct (src s) as [|d rest] eqn:Esrc.
    + split; [constructor|]. unfold future. cbn [chunk buf src]. rewrite Eb, Esrc. cbn. auto.
    + inversion Hs as [|? ? Hd Hrest]; subst. destruct d as [|d0 d']; [contradiction|]. cbn [negb andb].
      set (data1 := d0 :: d').
      assert (Hd1 : data1 <> []) by discriminate.
      assert (Hfut : future s = norm (data1 ++ concat rest)).
      { unfold future, data1. rewrite Esrc, Eb. cbn [bufl concat app]. reflexivity. }
      destruct (carried (last data1 0)) eqn:Ec; cbv iota.
      * destruct (removelast data1) as [|r0 r'] eqn:Er.
        -- (* the chunk consisted only of the carried character: read again, now with it waiting *)
           assert (Hone : data1 = [last data1 0]).
           { rewrite (last_removelast data1 Hd1) at 1. rewrite Er. reflexivity. }
           set (s' := {| src := rest; chunk := []; coff := 0; buf := Some (last data1 0); pl := l; pc := c; nerr := nerr s |}).
           assert (Hf' : future s' = future s).
           { rewrite Hfut, Hone. unfold future, s'. cbn [buf src bufl concat app]. reflexivity. }
           pose proof (rc_some one s' (last data1 0) eq_refl Hrest) as R. fold s'.
           destruct (read_chunk one s') as [s1 ok]. destruct R as [R1 [-> [R2 [R3 R4]]]].
           rewrite Hf' in R4. auto.
        -- split; [exact Hrest|]. split; [reflexivity|]. split; [cbn [chunk]; apply norm_nonempty; discriminate|].
           assert (Hsplit : data1 ++ concat rest = (r0 :: r') ++ ([last data1 0] ++ concat rest))
             by (rewrite <- Er, app_assoc, <- (last_removelast data1 Hd1); reflexivity).
           rewrite Hfut, Hsplit. unfold future. cbn [chunk buf src bufl].
           rewrite (norm_app (r0 :: r') ([last data1 0] ++ concat rest)); [reflexivity|].
           right. cbn [app hd]. apply carried_not_lf. exact Ec.
      * split; [exact Hrest|]. split; [reflexivity|]. split; [cbn [chunk]; apply norm_nonempty; exact Hd1|].
        rewrite Hfut. unfold future. cbn [chunk buf src bufl app]. symmetry. apply norm_app.
        left. intro E13. unfold carried in Ec. rewrite E13 in Ec. discriminate.
Qed.

(* ---------- char() and the whole character sequence ---------- *)
Lemma char_spec s : src_ok s ->
  match char s with
  | (s1, Some c) => src_ok s1 /\ remaining s = c :: remaining s1
  | (s1, None) => remaining s = []
  end.
Proof.
  intro Hs. unfold char.
  destruct (Nat.leb (length (chunk s)) (coff s)) eqn:E.
  - apply Nat.leb_le in E. pose proof (rc_spec s Hs) as R. destruct (rc s) as [s1 ok].
    assert (Hp : pending s = []) by (unfold pending; apply skipn_all2; exact E).
    destruct ok.
    + destruct R as [R1 [R2 [R3 R4]]]. rewrite R2.
      destruct (chunk s1) as [|c0 ch] eqn:Ech; [contradiction|]. cbn [nth_error].
      split; [exact R1|]. unfold remaining. rewrite Hp. cbn [app]. rewrite <- R4.
      unfold pending, future. cbn [coff chunk buf src skipn app]. reflexivity.
    + destruct R as [_ [R2 [R3 _]]]. unfold remaining. rewrite Hp, R3. reflexivity.
  - apply Nat.leb_gt in E.
    destruct (nth_error (chunk s) (coff s)) as [c0|] eqn:En.
    + split; [exact Hs|]. unfold remaining, pending, future. cbn [coff chunk buf src].
      assert (Hsk : skipn (coff s) (chunk s) = c0 :: skipn (S (coff s)) (chunk s)).
      { clear -En. revert En. generalize (coff s) as k. induction (chunk s) as [|x l IH]; intros k En.
        - destruct k; discriminate.
        - destruct k as [|k]; cbn in *; [inversion En; reflexivity | apply IH; exact En]. }
      rewrite Hsk. reflexivity.
    + apply nth_error_None in En. lia.
Qed.

Lemma drain_spec : forall fuel s, src_ok s -> (length (remaining s) < fuel)%nat -> drain fuel s = remaining s.
Proof.
  induction fuel as [|f IH]; intros s Hs Hl; [lia|].
  cbn [drain]. pose proof (char_spec s Hs) as C. destruct (char s) as [s1 [c|]].
  - destruct C as [C1 C2]. rewrite C2. f_equal. apply IH; [exact C1|]. rewrite C2 in Hl. cbn [length] in Hl. lia.
  - symmetry. exact C.
Qed.

(* THE segmentation theorem: whatever the way the characters are cut into non-empty reads (hence whatever the
   chunk size and the read sizes the source returns), the stream delivers the newline-normalised characters *)
Theorem chars_segmentation_independent reads :
  Forall (fun d => d <> []) reads ->
  drain (S (length (concat reads))) (init reads) = norm (concat reads).
Proof.
  intro H. rewrite drain_spec.
  - reflexivity.
  - exact H.
  - unfold remaining, pending, future, init. cbn [coff chunk buf src skipn bufl app].
    pose proof (norm_length (concat reads)). lia.
Qed.

Corollary two_segmentations_agree r1 r2 :
  Forall (fun d => d <> []) r1 -> Forall (fun d => d <> []) r2 -> concat r1 = concat r2 ->
  drain (S (length (concat r1))) (init r1) = drain (S (length (concat r2))) (init r2).
Proof. intros H1 H2 E. rewrite !chars_segmentation_independent by assumption. rewrite E. reflexivity. Qed.

(* the number of invalid-code-point errors is additive over the pieces a refill examines *)
Lemma filter_count_app (a b : str) : length (filter is_invalid (a ++ b)) = (length (filter is_invalid a) + length (filter is_invalid b))%nat.
Proof. rewrite filter_app, app_length. reflexivity. Qed.
