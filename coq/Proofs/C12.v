From Coq Require Import NArith List Bool Arith Lia.
From Verif Require Import Sx Str Tok.
From Verif.Gen Require Import Frame.
From Verif.Model Require Import C12.
Import ListNotations.

(* every attribute of the long-lived objects that is written during a parse is re-initialised when the next parse
   starts, or is one of the five explained exceptions *)
Lemma no_leaky_attribute : leaky = [].
Proof. vm_compute. reflexivity. Qed.

Lemma frame_nonvacuous : (20 <=? N.of_nat (length attr_writes))%N = true.
Proof. vm_compute. reflexivity. Qed.

Section CacheProofs.
  Variable V : Type.
  Variable table : str -> V.
  Variable bound : nat.

  Definition cache_ok (c : cache V) : Prop := Forall (fun e => snd e = table (fst e)) c.

  Lemma evict_ok fuel : forall c, cache_ok c -> cache_ok (evict V bound fuel c).
  Proof.
    induction fuel as [|f IH]; intros c H; cbn [evict]; [exact H|].
    destruct (Nat.ltb bound (length c)); [|exact H]. apply IH. destruct c; [exact H|]. inversion H; assumption.
  Qed.

  Lemma evict_bounded fuel : forall c, (length c <= fuel + bound)%nat -> (length (evict V bound fuel c) <= bound)%nat.
  Proof.
    induction fuel as [|f IH]; intros c H; cbn [evict]; [lia|].
    destruct (Nat.ltb_spec bound (length c)); [|lia]. apply IH. destruct c; cbn [tl length] in *; lia.
  Qed.

  Lemma lookup_transparent c k : cache_ok c ->
    fst (lookup V table bound c k) = table k /\ cache_ok (snd (lookup V table bound c k)).
  Proof.
    intro H. unfold lookup. destruct (find (fun e => str_eqb (fst e) k) c) as [e|] eqn:E.
    - cbn [fst snd]. split; [|exact H]. apply find_some in E as [Hin Hk]. apply str_eqb_eq in Hk.
      unfold cache_ok in H. rewrite Forall_forall in H. rewrite (H e Hin), Hk. reflexivity.
    - cbn [fst snd]. split; [reflexivity|]. apply evict_ok. apply Forall_app. split; [exact H|].
      constructor; [reflexivity | constructor].
  Qed.

  Theorem cache_transparent ks : forall c, cache_ok c ->
    fst (lookups V table bound c ks) = map table ks /\ cache_ok (snd (lookups V table bound c ks)).
  Proof.
    induction ks as [|k r IH]; intros c H; cbn [lookups map]; [split; [reflexivity | exact H]|].
    destruct (lookup_transparent c k H) as [H1 H2]. destruct (lookup V table bound c k) as [v c1]. cbn [fst snd] in *.
    destruct (IH c1 H2) as [H3 H4]. destruct (lookups V table bound c1 r) as [vs c2]. cbn [fst snd] in *.
    split; [rewrite H1, H3; reflexivity | exact H4].
  Qed.

  (* the cache stays bounded: after a miss at most [bound] entries remain *)
  Lemma lookup_bounded c k : (length c <= bound)%nat -> (length (snd (lookup V table bound c k)) <= bound)%nat.
  Proof.
    intro H. unfold lookup. destruct (find (fun e => str_eqb (fst e) k) c); cbn [snd]; [exact H|].
    apply evict_bounded. rewrite app_length. cbn [length]. lia.
  Qed.
End CacheProofs.

Corollary fresh_cache_transparent V table bound ks : fst (lookups V table bound [] ks) = map table ks.
Proof. apply cache_transparent. constructor. Qed.
