(* C08comment -- a comment as Ser writes it is read back by S_tok as exactly that comment. *)
From Coq Require Import NArith List Bool Arith Lia ZifyBool ZifyN.
From Verif Require Import Sx Str Tok.
From Verif.Gen Require Import Consts Entities Serializer.
From Verif.Model Require Import CharRef TokBase Ser.
From Verif.Spec Require Import CharRef TokSpec.
From Verif.Proofs Require Import C08 SpecTac.
Import ListNotations.
Local Open Scope N_scope.
Ltac s_compute ::= repeat (erewrite sp_iter_step; [ | solve [s_step] ]; cbn [tl]); cbn [sp_iter].

(* no two consecutive dashes *)
Fixpoint no_dd (d : str) : bool :=
  match d with
  | c :: r => match r with c2 :: _ => negb ((c =? 45) && (c2 =? 45)) && no_dd r | [] => true end
  | [] => true
  end.
Lemma no_dd_tail c d : no_dd (c :: d) = true -> no_dd d = true.
Proof. cbn [no_dd]. destruct d as [|c2 d']; [reflexivity|]. intro H. apply andb_true_iff in H as [_ H]. exact H. Qed.
Lemma no_dd_head c2 d : no_dd (45 :: c2 :: d) = true -> (c2 =? 45) = false.
Proof. cbn [no_dd]. intro H. apply andb_true_iff in H as [H _]. replace (45 =? 45) with true in H by reflexivity. cbn [andb] in H. apply negb_true_iff in H. exact H. Qed.

Lemma comment_char c i acc t o cd : (c =? 45) = false ->
  sp_step (mk_tk commentState (c :: i) (CComment acc) t o cd false)
  = (mk_tk commentState i (CComment (acc ++ [nulfix c])) t o cd false, true).
Proof. intro H. unfold sp_step. cbv beta iota zeta delta [peek]. cbn [st inp hd_error]. rewrite H. reflexivity. Qed.

Lemma comment_body n : forall d acc rest t o cd, (length d <= n)%nat -> no_dd d = true ->
  exists j, sp_iter j (mk_tk commentState (d ++ [45; 45; 62] ++ rest) (CComment acc) t o cd false)
            = Some (mk_tk dataState rest (CComment (acc ++ map nulfix d)) t (OComment (acc ++ map nulfix d) :: o) cd false).
Proof.
  induction n as [|n IH]; intros d acc rest t o cd Hl Hd.
  - destruct d; [|cbn in Hl; lia]. cbn [app map]. rewrite app_nil_r. exists 3%nat. s_compute. reflexivity.
  - destruct d as [|c d']; [cbn [app map]; rewrite app_nil_r; exists 3%nat; s_compute; reflexivity|].
    destruct (N.eqb_spec c 45) as [->|Hc].
    + destruct d' as [|c2 d''].
      * cbn [app map]. exists 4%nat. s_compute. reflexivity.
      * assert (Hc2 : (c2 =? 45) = false) by exact (no_dd_head c2 d'' Hd).
        assert (Hd'' : no_dd d'' = true) by exact (no_dd_tail _ _ (no_dd_tail _ _ Hd)).
        destruct (IH d'' (acc ++ [45; nulfix c2]) rest t o cd ltac:(cbn in Hl; lia) Hd'') as [j Hj].
        exists (2 + (1 + j))%nat. erewrite sp_iter_app; [|cbn [app]; s_compute; reflexivity].
        erewrite sp_iter_app; [|cbn [sp_iter]; rewrite (comment_char c2 _ _ _ _ _ Hc2); reflexivity].
        cbn [app] in Hj |- *. rewrite <- app_assoc in Hj. cbn [app map] in *.
        replace (acc ++ nulfix 45 :: nulfix c2 :: map nulfix d'') with (acc ++ 45 :: nulfix c2 :: map nulfix d'') by reflexivity.
        rewrite <- app_assoc. cbn [app]. exact Hj.
    + assert (Hd' : no_dd d' = true) by exact (no_dd_tail _ _ Hd).
      destruct (IH d' (acc ++ [nulfix c]) rest t o cd ltac:(cbn in Hl; lia) Hd') as [j Hj].
      apply N.eqb_neq in Hc.
      exists (1 + j)%nat. erewrite sp_iter_app; [|cbn [app sp_iter]; rewrite (comment_char c _ _ _ _ _ Hc); reflexivity].
      cbn [map]. rewrite <- app_assoc in Hj. exact Hj.
Qed.

(* COMMENTS.  For EVERY comment text d that Ser writes without reporting an error -- no "--" inside, not starting
   with ">" or "->" -- the text "<!--" d "-->" is read by S_tok from the data state as exactly one comment with
   that text (U+0000 as U+FFFD), and S_tok is back in the data state behind it.  (A text ending in "-" is fine:
   "--->" closes the comment and the extra dash is data.) *)
Theorem comment_roundtrip d rest cu t o cd :
  no_dd d = true -> starts_with [62] d = false -> starts_with [45; 62] d = false ->
  exists j, sp_iter j (mk_tk dataState ([60; 33; 45; 45] ++ d ++ [45; 45; 62] ++ rest) cu t o cd false)
            = Some (mk_tk dataState rest (CComment (map nulfix d)) t (OComment (map nulfix d) :: o) cd false).
Proof.
  intros Hd H1 H2.
  assert (H0 : sp_iter 3 (mk_tk dataState ([60; 33; 45; 45] ++ d ++ [45; 45; 62] ++ rest) cu t o cd false)
               = Some (mk_tk commentStartState (d ++ [45; 45; 62] ++ rest) (CComment []) t o cd false)).
  { cbn [app]. s_compute. reflexivity. }
  destruct d as [|c d'].
  - exists (3 + 3)%nat. erewrite sp_iter_app; [|exact H0]. cbn [app map]. s_compute. reflexivity.
  - destruct (N.eqb_spec c 45) as [->|Hc].
    + destruct d' as [|c2 d''].
      * exists (3 + 4)%nat. erewrite sp_iter_app; [|exact H0]. cbn [app map]. s_compute. reflexivity.
      * assert (Hc2 : (c2 =? 45) = false) by exact (no_dd_head c2 d'' Hd).
        assert (Hc2' : (c2 =? 62) = false).
        { cbn [starts_with] in H2. replace (45 =? 45) with true in H2 by reflexivity. cbn [andb] in H2.
          apply andb_false_iff in H2 as [H2|H2]; [|discriminate H2]. rewrite N.eqb_sym. exact H2. }
        destruct (comment_body (length (c2 :: d'')) (c2 :: d'') [45] rest t o cd (le_n _) (no_dd_tail _ _ Hd)) as [j Hj].
        exists (3 + (2 + j))%nat. erewrite sp_iter_app; [|exact H0].
        erewrite sp_iter_app; [|cbn [app]; s_compute; reflexivity].
        cbn [app map] in Hj |- *. exact Hj.
    + assert (Hc' : (c =? 62) = false).
      { cbn [starts_with] in H1. apply andb_false_iff in H1 as [H1|H1]; [|discriminate H1]. rewrite N.eqb_sym. exact H1. }
      apply N.eqb_neq in Hc.
      destruct (comment_body (length (c :: d')) (c :: d') [] rest t o cd (le_n _) Hd) as [j Hj].
      exists (3 + (1 + j))%nat. erewrite sp_iter_app; [|exact H0].
      erewrite sp_iter_app; [|cbn [app]; s_compute; reflexivity].
      cbn [app] in Hj |- *. exact Hj.
Qed.

(* what Ser reports as an error is exactly the negation of these conditions *)
Lemma no_dd_iff_not_contains d : no_dd d = negb (contains [45; 45] d).
Proof.
  induction d as [|c d IH]; [reflexivity|]. cbn [no_dd contains starts_with].
  destruct d as [|c2 d'].
  - cbn. rewrite !andb_false_r. reflexivity.
  - rewrite IH. cbn [contains starts_with]. rewrite !andb_true_r.
    rewrite (N.eqb_sym 45 c), (N.eqb_sym 45 c2). rewrite !negb_orb. reflexivity.
Qed.
Theorem ser_comment_ok o d : ser_token o false (TComment d) = Some (false, [60; 33; 45; 45] ++ d ++ [45; 45; 62], []) ->
  no_dd d = true /\ starts_with [62] d = false /\ starts_with [45; 62] d = false.
Proof.
  cbn [ser_token]. intro H. rewrite no_dd_iff_not_contains.
  destruct (contains [45; 45] d); [inversion H|].
  destruct (starts_with [62] d); [inversion H|]. destruct (starts_with [45; 62] d); [inversion H|].
  repeat split.
Qed.
