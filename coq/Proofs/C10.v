(* C10 -- what reaches the serializer's token loop after the sanitizer (default lists) never switches the loop
   to raw-text mode: every text token -- including the text that disallowed tags are turned into -- is escaped,
   and by C08's theorem escaped text is read back as text by the WHATWG tokenizer. *)
From Coq Require Import NArith List Bool Arith.
From Verif Require Import Sx Str Tok.
From Verif.Gen Require Import Consts Sanitizer Serializer.
From Verif.Model Require Import Ser C09 C10.
From Verif.Proofs Require Import C09.
Import ListNotations.
Local Open Scope N_scope.

Lemma allowed_no_rcdata : forallb (fun k => negb (mem_str (snd k) rcdataElements)) allowed_elements = true.
Proof. vm_compute. reflexivity. Qed.

Lemma mem_key_In k l : mem_key k l = true -> In k l.
Proof.
  unfold mem_key. intro H. apply existsb_exists in H as [x [Hx E]]. apply akey_eqb_eq in E. subst x. exact Hx.
Qed.

Lemma element_allowed_not_rcdata ns name :
  element_allowed default_lists ns name = true -> mem_str name rcdataElements = false.
Proof.
  unfold element_allowed. intro H.
  pose proof allowed_no_rcdata as F. rewrite forallb_forall in F.
  apply orb_true_iff in H as [H|H].
  - apply mem_key_In in H. specialize (F _ H). cbn [snd] in F. apply negb_true_iff in F. exact F.
  - destruct ns; [discriminate|]. apply mem_key_In in H. specialize (F _ H). cbn [snd] in F.
    apply negb_true_iff in F. exact F.
Qed.

(* a sanitized token never turns raw-text mode on (or finds it on) *)
Lemma sanitized_token_keeps_escaping o css t t' :
  sanitize default_lists css t = Some t' ->
  match ser_token o false t' with Some (c, _, _) => c = false | None => True end.
Proof.
  intro H. pose proof (sanitize_elements default_lists css t t' H) as Ha.
  destruct t'; cbn [ser_token]; cbn in Ha; try rewrite (element_allowed_not_rcdata _ _ Ha); cbn [andb];
    repeat match goal with
           | |- context [let '(_, _) := ?x in _] => destruct x
           | |- context [if ?b then _ else _] => destruct b
           | |- context [match find ?f ?l with _ => _ end] => destruct (find f l)
           end; try reflexivity; exact I.
Qed.

(* the token loop with raw-text mode pinned off *)
Fixpoint ser_escaping (o : sopts) (ts : list token) : option (str * list str) :=
  match ts with
  | [] => Some ([], [])
  | t :: r =>
      match ser_token o false t with
      | None => None
      | Some (_, txt, e) =>
          match ser_escaping o r with
          | None => None
          | Some (txt', e') => Some (txt ++ txt', e ++ e')
          end
      end
  end.

Lemma San_cons L css t r :
  San L css (t :: r) = match sanitize L css t with Some x => x :: San L css r | None => San L css r end.
Proof. unfold San. cbn [flat_map]. destruct (sanitize L css t); reflexivity. Qed.

Theorem sanitized_stream_is_always_escaped o css ts :
  ser_loop o false (San default_lists css ts) = ser_escaping o (San default_lists css ts).
Proof.
  induction ts as [|t r IH]; [reflexivity|].
  rewrite San_cons. destruct (sanitize default_lists css t) as [t'|] eqn:E; [|exact IH].
  cbn [ser_loop ser_escaping].
  pose proof (sanitized_token_keeps_escaping o css t t' E) as Hc.
  destruct (ser_token o false t') as [[[c txt] e]|]; [|reflexivity].
  subst c. rewrite IH. reflexivity.
Qed.

(* a disallowed tag is written as the escape of its source text *)
Lemma disallowed_start_is_escaped o css ns name a :
  element_allowed default_lists ns name = false ->
  exists s, sanitize default_lists css (TStart ns name a) = Some (TChars s) /\
            ser_token o false (TChars s) = Some (false, Ser.escape s, []).
Proof.
  intro H. cbn [sanitize]. rewrite H. cbn [disallowed]. eexists. split; [reflexivity|]. cbn [ser_token]. reflexivity.
Qed.

(* the sanitizer sits between attribute sorting and optional-tag omission in serialize() *)
Lemma sanitizer_position :
  map snd filter_stack =
  [[105;110;106;101;99;116;95;109;101;116;97;95;99;104;97;114;115;101;116];
   [97;108;112;104;97;98;101;116;105;99;97;108;97;116;116;114;105;98;117;116;101;115];
   [119;104;105;116;101;115;112;97;99;101];
   [115;97;110;105;116;105;122;101;114];
   [111;112;116;105;111;110;97;108;116;97;103;115]].
Proof. reflexivity. Qed.
