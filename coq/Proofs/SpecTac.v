(* SpecTac -- tactics that compute single steps of S_tok (Spec/TokSpec.v) on configurations with symbolic
   characters under side conditions, and the batching lemmas for runs of characters that keep S_tok in one
   state.  No dependence on the html5lib model: shared by the refinement proof (C02) and the serializer
   theorems (C08, C10). *)
From Coq Require Import NArith List Bool Arith Lia ZifyBool ZifyN.
From Verif Require Import Sx Str.
From Verif.Gen Require Import Entities.
From Verif.Model Require Import CharRef TokBase.
From Verif.Spec Require Import CharRef TokSpec.
From Verif.Proofs Require Import C08.
Import ListNotations.
Local Open Scope N_scope.

Lemma exists_last_pairs (a : pairs) : a <> [] -> exists a0 n v, a = a0 ++ [(n, v)].
Proof.
  intro H. destruct (exists_last H) as [a0 [[n v] E]]. exists a0, n, v. exact E.
Qed.

Ltac is_lit_pos p := lazymatch p with xH => idtac | xO ?q => is_lit_pos q | xI ?q => is_lit_pos q end.
Ltac is_lit a := lazymatch a with N0 => idtac | Npos ?p => is_lit_pos p end.
Ltac eval_ground :=
  repeat match goal with
         | |- context [N.eqb ?a ?b] => is_lit a; is_lit b; let v := eval vm_compute in (N.eqb a b) in change (N.eqb a b) with v
         | |- context [is_space ?a] => is_lit a; let v := eval vm_compute in (is_space a) in change (is_space a) with v
         | |- context [is_alpha ?a] => is_lit a; let v := eval vm_compute in (is_alpha a) in change (is_alpha a) with v
         | |- context [lc ?a] => is_lit a; let v := eval vm_compute in (lc a) in change (lc a) with v
         | |- context [nulfix ?a] => is_lit a; let v := eval vm_compute in (nulfix a) in change (nulfix a) with v
         end.
Ltac split_bools :=
  repeat match goal with
         | H : (_ || _) = false |- _ => apply orb_false_elim in H; destruct H
         | H : (_ && _) = true |- _ => apply andb_true_iff in H; destruct H
         | H : (_ || _) = true |- _ => apply orb_true_iff in H; destruct H
         | H : false = true |- _ => discriminate H
         | H : true = false |- _ => discriminate H
         | H : context [is_appropriate _] |- _ => cbv beta iota zeta delta [is_appropriate] in H; cbn [cur tmp] in H
         | H : context [tmp_is _ _] |- _ =>
             cbv beta iota zeta delta [tmp_is emit set_inp set_out set_st set_tmp set_cur] in H; cbn [tmp] in H
         | H : N.eqb ?x ?n = true |- _ => apply N.eqb_eq in H; subst x
         end.

Ltac rw_conds :=
  repeat match goal with
         | H : ?t = false |- context [?t] => lazymatch t with true => fail | false => fail | _ => rewrite H end
         | H : ?t = true |- context [?t] => lazymatch t with true => fail | false => fail | _ => rewrite H end
         end.

Lemma emits_spec l : forall k, emits l k = set_out (rev (map (fun c => OChars [c]) l) ++ out k) k.
Proof.
  unfold emits. induction l as [|c l IH]; intro k; cbn [fold_left map rev app].
  - destruct k; reflexivity.
  - rewrite IH. unfold emitc, emit. cbn [set_out out st inp cur tmp cdata_ok bad]. rewrite <- app_assoc. reflexivity.
Qed.

Lemma sp_iter_step j k k' : sp_step k = (k', true) -> sp_iter (S j) k = sp_iter j k'.
Proof. intro H. cbn [sp_iter]. rewrite H. reflexivity. Qed.
Ltac s_norm :=
  cbv beta iota zeta delta [set_st set_inp set_cur set_tmp set_out set_bad emit emit_cur advance unget go stop emitc
                            name_app name_set name_lower data_app attr_new attr_name_app attr_val_app emit_tag
                            set_self_closing set_incorrect pub_set sys_set pub_app sys_app tok_of_cur fq end_tag_from_tmp nulfix w_script appropriate];
  cbn [st inp cur tmp out cdata_ok bad fold_left].
Ltac decide_by_lia b :=
  let Hd := fresh "Hd" in
  first [ assert (Hd : b = true) by (unfold is_space, is_alpha, is_upper, is_lower, is_digit in *; lia)
        | assert (Hd : b = false) by (unfold is_space, is_alpha, is_upper, is_lower, is_digit in *; lia) ];
  rewrite Hd.
Ltac split_undecided :=
  repeat match goal with
         | |- context [if ?b then _ else _] =>
             lazymatch b with true => fail | false => fail
             | _ => first [ decide_by_lia b | (let E := fresh "Ec" in destruct b eqn:E; split_bools) ] end
         end.
Ltac decide_conds := repeat (progress (eval_ground; rw_conds; cbv beta iota zeta; rewrite ?emits_spec; s_norm;
                                       rewrite ?upd_last_snoc; cbn [fst snd])).
Ltac s_step :=
  unfold sp_step; cbv beta iota zeta delta [peek]; cbn [st inp hd_error];
  decide_conds; split_undecided; decide_conds;
  reflexivity.
Ltac s_compute := repeat (erewrite sp_iter_step; [ | solve [s_step] ]); cbn [sp_iter].


Ltac eval_eqb :=
  repeat match goal with
         | |- context [tstate_eqb ?a ?b] => let v := eval vm_compute in (tstate_eqb a b) in change (tstate_eqb a b) with v
         | H : context [tstate_eqb ?a ?b] |- _ => let v := eval vm_compute in (tstate_eqb a b) in change (tstate_eqb a b) with v in H
         end.

(* ---------------- charsUntil: a run of characters that keeps S_tok in the same state ---------------- *)
Definition singles_r (l : str) : list otok := rev (map (fun c => OChars [c]) l).
Lemma singles_r_cons c l o : singles_r (c :: l) ++ o = singles_r l ++ OChars [c] :: o.
Proof. unfold singles_r. cbn [map rev]. rewrite <- app_assoc. reflexivity. Qed.

Lemma batch_emit X (p : N -> bool) :
  (forall c r cu t o cd, p c = true ->
     sp_step (mk_tk X (c :: r) cu t o cd false) = (mk_tk X r cu t (OChars [c] :: o) cd false, true)) ->
  forall l rest cu t o cd, forallb p l = true ->
  sp_iter (length l) (mk_tk X (l ++ rest) cu t o cd false) = Some (mk_tk X rest cu t (singles_r l ++ o) cd false).
Proof.
  intros Hstep l. induction l as [|c l IH]; intros rest cu t o cd Hp; [reflexivity|].
  cbn [forallb] in Hp. apply andb_true_iff in Hp as [Hc Hl].
  cbn [length app]. erewrite sp_iter_step; [|apply Hstep; exact Hc].
  rewrite IH by exact Hl. rewrite singles_r_cons. reflexivity.
Qed.
Lemma batch_skip X (p : N -> bool) :
  (forall c r cu t o cd, p c = true -> sp_step (mk_tk X (c :: r) cu t o cd false) = (mk_tk X r cu t o cd false, true)) ->
  forall l rest cu t o cd, forallb p l = true ->
  sp_iter (length l) (mk_tk X (l ++ rest) cu t o cd false) = Some (mk_tk X rest cu t o cd false).
Proof.
  intros Hstep l. induction l as [|c l IH]; intros rest cu t o cd Hp; [reflexivity|].
  cbn [forallb] in Hp. apply andb_true_iff in Hp as [Hc Hl].
  cbn [length app]. erewrite sp_iter_step; [|apply Hstep; exact Hc]. apply IH. exact Hl.
Qed.
Lemma batch_val X (p : N -> bool) :
  (forall c r e n a0 an av sc t o cd, p c = true ->
     sp_step (mk_tk X (c :: r) (CTag e n (a0 ++ [(an, av)]) sc) t o cd false)
     = (mk_tk X r (CTag e n (a0 ++ [(an, av ++ [c])]) sc) t o cd false, true)) ->
  forall l rest e n a0 an av sc t o cd, forallb p l = true ->
  sp_iter (length l) (mk_tk X (l ++ rest) (CTag e n (a0 ++ [(an, av)]) sc) t o cd false)
  = Some (mk_tk X rest (CTag e n (a0 ++ [(an, av ++ l)]) sc) t o cd false).
Proof.
  intros Hstep l. induction l as [|c l IH]; intros rest e n a0 an av sc t o cd Hp.
  - cbn. rewrite app_nil_r. reflexivity.
  - cbn [forallb] in Hp. apply andb_true_iff in Hp as [Hc Hl].
    cbn [length app]. erewrite sp_iter_step; [|apply Hstep; exact Hc].
    rewrite IH by exact Hl. rewrite <- app_assoc. reflexivity.
Qed.
Lemma batch_comment X (p : N -> bool) :
  (forall c r d t o cd, p c = true ->
     sp_step (mk_tk X (c :: r) (CComment d) t o cd false) = (mk_tk X r (CComment (d ++ [c])) t o cd false, true)) ->
  forall l rest d t o cd, forallb p l = true ->
  sp_iter (length l) (mk_tk X (l ++ rest) (CComment d) t o cd false) = Some (mk_tk X rest (CComment (d ++ l)) t o cd false).
Proof.
  intros Hstep l. induction l as [|c l IH]; intros rest d t o cd Hp.
  - cbn. rewrite app_nil_r. reflexivity.
  - cbn [forallb] in Hp. apply andb_true_iff in Hp as [Hc Hl].
    cbn [length app]. erewrite sp_iter_step; [|apply Hstep; exact Hc].
    rewrite IH by exact Hl. rewrite <- app_assoc. reflexivity.
Qed.

Lemma batch_name X (p : N -> bool) :
  (forall c r e n a0 an av sc t o cd, p c = true ->
     sp_step (mk_tk X (c :: r) (CTag e n (a0 ++ [(an, av)]) sc) t o cd false)
     = (mk_tk X r (CTag e n (a0 ++ [(an ++ [ascii_lower c], av)]) sc) t o cd false, true)) ->
  forall l rest e n a0 an av sc t o cd, forallb p l = true ->
  sp_iter (length l) (mk_tk X (l ++ rest) (CTag e n (a0 ++ [(an, av)]) sc) t o cd false)
  = Some (mk_tk X rest (CTag e n (a0 ++ [(an ++ lower_str l, av)]) sc) t o cd false).
Proof.
  intros Hstep l. induction l as [|c l IH]; intros rest e n a0 an av sc t o cd Hp.
  - cbn. rewrite app_nil_r. reflexivity.
  - cbn [forallb] in Hp. apply andb_true_iff in Hp as [Hc Hl].
    cbn [length app]. erewrite sp_iter_step; [|apply Hstep; exact Hc].
    rewrite IH by exact Hl. unfold lower_str. cbn [map]. rewrite <- app_assoc. reflexivity.
Qed.

