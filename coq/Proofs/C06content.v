(* C06content -- ContentAttrParser.parse (Model.C06.content_charset: positions into a byte string, StopIteration as
   an outcome) computes exactly the standard's "algorithm for extracting a character encoding from a meta element"
   (Spec.ContentCharset.extract_charset: a function on the list of characters), for EVERY attribute value. *)
From Coq Require Import NArith List Bool Arith Lia.
From Verif Require Import Sx Str Tok.
From Verif.Gen Require Import Encodings.
From Verif.Model Require Import C06.
From Verif.Spec Require Import ContentCharset.
Import ListNotations.
Local Open Scope N_scope.

(* ---- lists and positions ---- *)
Lemma skipn_skipn' {A} (a b : nat) (l : list A) : skipn a (skipn b l) = skipn (b + a) l.
Proof.
  revert l; induction b as [|b IH]; intro l; [reflexivity|].
  destruct l as [|x l]; [rewrite !skipn_nil; reflexivity|]. cbn [skipn plus]. apply IH.
Qed.
Lemma skipn_cons_nth (q : nat) (v : str) : (q < length v)%nat -> skipn q v = nth q v 0 :: skipn (S q) v.
Proof.
  revert v; induction q as [|q IH]; intros v H; destruct v as [|x v]; cbn [length] in H; try lia; [reflexivity|].
  cbn [skipn nth]. apply IH. lia.
Qed.
Lemma skipn_all' (v : str) : skipn (length v) v = [].
Proof. apply skipn_all. Qed.

Lemma starts_with_length p s : starts_with p s = true -> (length p <= length s)%nat.
Proof.
  revert s; induction p as [|x p IH]; intros s H; [cbn; lia|].
  destruct s as [|y s]; [discriminate|]. cbn [starts_with] in H. apply andb_true_iff in H as [_ H].
  specialize (IH _ H). cbn [length]. lia.
Qed.
Lemma after_first_eq p s :
  after_first p s = if starts_with p s then Some (skipn (length p) s)
                    else match s with [] => None | _ :: r => after_first p r end.
Proof. destruct s; reflexivity. Qed.
Lemma after_first_short p s : (length s < length p)%nat -> after_first p s = None.
Proof.
  induction s as [|c s IH]; intro H; rewrite after_first_eq.
  - destruct (starts_with p []) eqn:E; [apply starts_with_length in E; lia|reflexivity].
  - destruct (starts_with p (c :: s)) eqn:E; [apply starts_with_length in E; lia|]. apply IH. cbn [length] in H. lia.
Qed.

(* ---- jumpTo / index ---- *)
Lemma find_from_spec (v b : str) : forall fuel q, (length v - q < fuel)%nat -> (q <= length v)%nat ->
  match find_from v b fuel q with
  | Some i => (q <= i)%nat /\ (i + length b <= length v)%nat /\ after_first b (skipn q v) = Some (skipn (i + length b) v)
  | None => b = [] \/ after_first b (skipn q v) = None
  end.
Proof.
  induction fuel as [|k IH]; intros q Hf Hq; [lia|]. cbn [find_from]. unfold len.
  destruct (Nat.ltb (length v) (q + length b)) eqn:E.
  - apply Nat.ltb_lt in E. right. apply after_first_short. rewrite skipn_length. lia.
  - apply Nat.ltb_ge in E. rewrite after_first_eq. destruct (starts_with b (skipn q v)) eqn:Es.
    + split; [lia|]. split; [lia|]. rewrite skipn_skipn'. reflexivity.
    + destruct (Nat.eq_dec q (length v)) as [->|Hne].
      * assert (length b = 0)%nat by lia. destruct b; [|discriminate]. destruct (find_from v [] k (S (length v))); [|left; reflexivity].
        exfalso. cbn in Es. discriminate.
      * assert (Hlt : (q < length v)%nat) by lia. rewrite (skipn_cons_nth q v Hlt).
        specialize (IH (S q) ltac:(lia) ltac:(lia)). destruct (find_from v b k (S q)) as [i|].
        -- destruct IH as [H1 [H2 H3]]. split; [lia|]. split; [exact H2|exact H3].
        -- exact IH.
Qed.

(* ---- skip / skipUntil ---- *)
Lemma scan_spec (v : str) (f : N -> bool) : forall fuel q, (length v - q < fuel)%nat -> (q <= length v)%nat ->
  match scan v f fuel q with
  | (Some c, j) => (q <= j)%nat /\ (j < length v)%nat /\ nth j v 0 = c /\ f c = true /\
                   before_strict f (skipn q v) = Some (firstn (j - q) (skipn q v)) /\
                   before f (skipn q v) = firstn (j - q) (skipn q v)
  | (None, j) => j = length v /\ before_strict f (skipn q v) = None /\ before f (skipn q v) = skipn q v
  end.
Proof.
  induction fuel as [|k IH]; intros q Hf Hq; [lia|]. cbn [scan]. unfold len, byte.
  destruct (Nat.leb (length v) q) eqn:E.
  - apply Nat.leb_le in E. assert (q = length v) by lia. subst q. rewrite skipn_all'. split; [reflexivity|]. split; reflexivity.
  - apply Nat.leb_gt in E. rewrite (skipn_cons_nth q v E). destruct (f (nth q v 0)) eqn:Ef.
    + split; [lia|]. split; [exact E|]. split; [reflexivity|]. split; [exact Ef|].
      rewrite Nat.sub_diag. cbn [before_strict before firstn]. rewrite Ef. split; reflexivity.
    + specialize (IH (S q) ltac:(lia) ltac:(lia)). destruct (scan v f k (S q)) as [[c|] j].
      * destruct IH as [H1 [H2 [H3 [H4 [H5 H6]]]]]. split; [lia|]. split; [exact H2|]. split; [exact H3|]. split; [exact H4|].
        cbn [before_strict before]. rewrite Ef, H5, H6. replace (j - q)%nat with (S (j - S q)) by lia. cbn [firstn option_map].
        split; reflexivity.
      * destruct IH as [H1 [H2 H3]]. split; [exact H1|]. cbn [before_strict before]. rewrite Ef, H2, H3. split; reflexivity.
Qed.

Lemma scan_drop (v : str) : forall fuel q, (length v - q < fuel)%nat -> (q <= length v)%nat ->
  let r := scan v (fun c => negb (is_sp c)) fuel q in
  drop_ws (skipn q v) = skipn (snd r) v /\ (q <= snd r)%nat /\
  match fst r with Some c => (snd r < length v)%nat /\ nth (snd r) v 0 = c | None => snd r = length v end.
Proof.
  induction fuel as [|k IH]; intros q Hf Hq; [lia|]. cbn [scan]. unfold len, byte.
  destruct (Nat.leb (length v) q) eqn:E.
  - apply Nat.leb_le in E. assert (q = length v) by lia. subst q. cbn [fst snd]. rewrite skipn_all'. split; [reflexivity|]. split; [lia|reflexivity].
  - apply Nat.leb_gt in E. rewrite (skipn_cons_nth q v E). unfold is_sp. destruct (is_space (nth q v 0)) eqn:Es; cbn [negb].
    + specialize (IH (S q) ltac:(lia) ltac:(lia)). cbn zeta in IH. unfold is_sp in IH.
      destruct (scan v (fun c => negb (is_space c)) k (S q)) as [r j]. cbn [fst snd] in *.
      destruct IH as [H1 [H2 H3]]. cbn [drop_ws]. rewrite Es. split; [exact H1|]. split; [lia|exact H3].
    + cbn [fst snd drop_ws]. rewrite Es. split; [symmetry; apply skipn_cons_nth; exact E|]. split; [lia|]. split; [exact E|reflexivity].
Qed.

(* ---- step 6 ---- *)
Definition tail_m (v : str) (p1 : nat) : option str :=
  match skip v is_sp (S p1) with
  | None => None
  | Some (_, p2) =>
      match current v p2 with
      | None => None
      | Some q =>
          if (q =? 34) || (q =? 39) then
            match getpos v (S p2) with
            | None => None
            | Some old => match find_from v [q] (S (length v)) old with
                          | Some j => Some (firstn (j - old) (skipn old v))
                          | None => None
                          end
            end
          else
            match scan v is_sp_or_semi (S (length v)) p2 with
            | (Some _, j) => Some (firstn (j - p2) (skipn p2 v))
            | (None, _) => Some (skipn p2 v)
            end
      end
  end.

Lemma content_charset_eq v :
  content_charset v = match content_find (S (length v)) v 0 with None => None | Some p1 => tail_m v p1 end.
Proof. reflexivity. Qed.

(* the characters before the first q: index form and list form *)
Lemma after_first_single_before (q : N) (s r : str) :
  after_first [q] s = Some r -> exists pre, before_strict (N.eqb q) s = Some pre /\ s = pre ++ q :: r.
Proof.
  revert r; induction s as [|c s IH]; intros r H; rewrite after_first_eq in H; cbn [starts_with] in H.
  - discriminate.
  - rewrite andb_true_r in H. cbn [before_strict]. destruct (q =? c) eqn:E.
    + apply N.eqb_eq in E. subst c. inversion H; subst. exists []. split; reflexivity.
    + destruct (IH r H) as [pre [H1 H2]]. exists (c :: pre). rewrite H1. split; [reflexivity|]. rewrite H2. reflexivity.
Qed.
Lemma after_first_single_none (q : N) (s : str) : after_first [q] s = None -> before_strict (N.eqb q) s = None.
Proof.
  induction s as [|c s IH]; intro H; [reflexivity|]. rewrite after_first_eq in H. cbn [starts_with] in H.
  rewrite andb_true_r in H. cbn [before_strict]. destruct (q =? c); [discriminate|]. rewrite (IH H). reflexivity.
Qed.

Lemma tail_spec v p1 : (p1 < length v)%nat -> tail_m v p1 = value_at (drop_ws (skipn (S p1) v)).
Proof.
  intro Hp. unfold tail_m, skip, getpos, len.
  destruct (Nat.leb (length v) (S p1)) eqn:E.
  - apply Nat.leb_le in E. assert (S p1 = length v) by lia. rewrite H, skipn_all'. reflexivity.
  - apply Nat.leb_gt in E.
    pose proof (scan_drop v (S (length v)) (S p1) ltac:(lia) ltac:(lia)) as D. cbn zeta in D.
    destruct (scan v (fun c => negb (is_sp c)) (S (length v)) (S p1)) as [r p2]. cbn [fst snd] in D.
    destruct D as [D1 [D2 D3]]. rewrite D1. unfold current, getpos, len.
    destruct r as [c|].
    + destruct D3 as [D3 D4]. assert (El : Nat.leb (length v) p2 = false) by (apply Nat.leb_gt; exact D3). rewrite El.
      unfold byte. rewrite D4. rewrite (skipn_cons_nth p2 v D3), D4. cbn [value_at].
      destruct ((c =? 34) || (c =? 39)) eqn:Eq.
      * destruct (Nat.leb (length v) (S p2)) eqn:E2.
        -- apply Nat.leb_le in E2. assert (S p2 = length v) by lia. rewrite H, skipn_all'. reflexivity.
        -- apply Nat.leb_gt in E2.
           pose proof (find_from_spec v [c] (S (length v)) (S p2) ltac:(lia) ltac:(lia)) as F.
           destruct (find_from v [c] (S (length v)) (S p2)) as [j|].
           ++ destruct F as [F1 [F2 F3]]. destruct (after_first_single_before _ _ _ F3) as [pre [B1 B2]]. rewrite B1. f_equal.
              assert (L : length pre = (j - S p2)%nat).
              { apply (f_equal (@length N)) in B2. rewrite app_length, !skipn_length in B2. cbn [length] in B2, F2. rewrite skipn_length in B2. lia. }
              rewrite B2, <- L, firstn_app, firstn_all, Nat.sub_diag. cbn [firstn]. rewrite app_nil_r. reflexivity.
           ++ destruct F as [F|F]; [discriminate|]. rewrite (after_first_single_none _ _ F). reflexivity.
      * rewrite <- D4 at 1. rewrite <- (skipn_cons_nth p2 v D3). rewrite <- D4. rewrite <- (skipn_cons_nth p2 v D3).
        pose proof (scan_spec v is_sp_or_semi (S (length v)) p2 ltac:(lia) ltac:(lia)) as S1.
        unfold is_sp_or_semi in *. unfold label_end.
        destruct (scan v (fun c0 => is_space c0 || (c0 =? 59)) (S (length v)) p2) as [[c1|] j].
        -- destruct S1 as [_ [_ [_ [_ [_ S6]]]]]. rewrite S6. reflexivity.
        -- destruct S1 as [_ [_ S3]]. rewrite S3. reflexivity.
    + subst p2. rewrite Nat.leb_refl, skipn_all'. reflexivity.
Qed.

(* ---- the loop ---- *)
Lemma extract_nil k : extract k [] = None.
Proof. destruct k; reflexivity. Qed.

Lemma find_loop v : forall k from ks, (length v - from < k)%nat -> (from <= length v)%nat -> (length v - from < ks)%nat ->
  extract ks (skipn from v) =
  match content_find k v from with None => None | Some p1 => value_at (drop_ws (skipn (S p1) v)) end /\
  match content_find k v from with None => True | Some p1 => (p1 < length v)%nat end.
Proof.
  induction k as [|k IH]; intros from ks Hk Hf Hks; [lia|]. destruct ks as [|ks]; [lia|]. cbn [content_find extract].
  pose proof (find_from_spec v s_charset (S (length v)) from ltac:(lia) Hf) as F.
  change [99;104;97;114;115;101;116] with s_charset.
  destruct (find_from v s_charset (S (length v)) from) as [i|].
  - destruct F as [F1 [F2 F3]]. rewrite F3. change (length s_charset) with 7%nat in *. unfold skip, getpos, len.
    destruct (Nat.leb (length v) (i + 7)) eqn:E.
    + apply Nat.leb_le in E. assert (Hi : (i + 7)%nat = length v) by lia. rewrite Hi, skipn_all'. split; [reflexivity|exact I].
    + apply Nat.leb_gt in E.
      pose proof (scan_drop v (S (length v)) (i + 7) ltac:(lia) ltac:(lia)) as D. cbn zeta in D.
      destruct (scan v (fun c => negb (is_sp c)) (S (length v)) (i + 7)) as [r p1]. cbn [fst snd] in D.
      destruct D as [D1 [D2 D3]]. rewrite D1. unfold current, getpos, len. destruct r as [c|].
      * destruct D3 as [D3 D4]. assert (El : Nat.leb (length v) p1 = false) by (apply Nat.leb_gt; exact D3). rewrite El.
        unfold byte. rewrite D4. rewrite (skipn_cons_nth p1 v D3), D4. destruct (c =? 61) eqn:Ec.
        -- split; [reflexivity|exact D3].
        -- rewrite <- D4, <- (skipn_cons_nth p1 v D3). apply IH; lia.
      * subst p1. rewrite Nat.leb_refl, skipn_all'. split; [reflexivity|exact I].
  - destruct F as [F|F]; [discriminate|]. rewrite F. split; [reflexivity|exact I].
Qed.

Theorem content_charset_is_the_standard v : content_charset v = extract_charset v.
Proof.
  rewrite content_charset_eq. unfold extract_charset.
  pose proof (find_loop v (S (length v)) 0%nat (S (length v)) ltac:(lia) ltac:(lia) ltac:(lia)) as [H1 H2].
  cbn [skipn] in H1. rewrite H1. destruct (content_find (S (length v)) v 0) as [p1|]; [|reflexivity].
  apply tail_spec. exact H2.
Qed.
