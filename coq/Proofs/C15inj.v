(* C15inj -- where and when inject_meta_charset injects: for every stream with one head element (start tag ... end
   tag, no other head tags anywhere), the output is the input with every meta declaration rewritten, plus exactly one
   <meta charset=ENCODING> directly after the head start tag if and only if no declaration was found before </head>. *)
From Coq Require Import NArith List Bool Arith.
From Verif Require Import Sx Str Tok.
From Verif.Model Require Import C15.
Import ListNotations.
Local Open Scope N_scope.

Section Inj.
  Variable enc : str.

  (* a token that is no head tag of any kind *)
  Definition plain (t : token) : bool :=
    match t with
    | TStart _ n _ | TEnd _ n | TEmpty _ n _ => negb (is_name s_head n)
    | _ => true
    end.
  (* what the filter does to a token outside that: meta declarations are rewritten *)
  Definition rw (t : token) : token :=
    match t with
    | TEmpty ns n a => if is_name s_meta n then TEmpty ns n (fst (rewrite_meta enc a)) else t
    | _ => t
    end.
  (* the token is a meta element that declares an encoding (a charset attribute, or the content-type pragma) *)
  Definition decl (t : token) : bool :=
    match t with
    | TEmpty ns n a => is_name s_meta n && snd (rewrite_meta enc a)
    | _ => false
    end.
  Definition tag (l : list token) : list (token * bool) := map (fun t => (t, false)) l.

  Lemma head_not_meta n : is_name s_head n = false \/ is_name s_meta n = false.
  Proof.
    unfold is_name. destruct (str_eqb (lower_str n) s_head) eqn:E; [|left; reflexivity].
    right. apply str_eqb_eq in E. rewrite E. reflexivity.
  Qed.

  (* outside head: plain tokens go straight through *)
  Lemma run_plain_out : forall l f,
    forallb plain l = true ->
    run_steps enc {| in_head := false; found := f; pending := [] |} l
    = (tag (map rw l), {| in_head := false; found := f || existsb decl l; pending := [] |}).
  Proof.
    induction l as [|t l IH]; intros f Hl.
    - cbn. rewrite orb_false_r. reflexivity.
    - cbn [forallb] in Hl. apply andb_true_iff in Hl as [Ht Hl]. cbn [run_steps].
      assert (Hs : step enc {| in_head := false; found := f; pending := [] |} t
                   = ([(rw t, false)], {| in_head := false; found := f || decl t; pending := [] |})).
      { destruct t as [dn dp ds|s|s|ns n a|ns n|ns n a|c|en|er|ty]; cbn [plain] in Ht; cbn [step rw decl in_head found pending];
          rewrite ?orb_false_r; try reflexivity.
        - apply negb_true_iff in Ht. rewrite Ht. reflexivity.
        - apply negb_true_iff in Ht. rewrite Ht. reflexivity.
        - apply negb_true_iff in Ht. destruct (is_name s_meta n) eqn:Em.
          + destruct (rewrite_meta enc a) as [a' fl]. cbn [fst snd andb in_head found pending]. reflexivity.
          + rewrite Ht. cbn [andb]. rewrite orb_false_r. reflexivity. }
      rewrite Hs, (IH _ Hl). cbn [tag map app existsb]. rewrite orb_assoc. reflexivity.
  Qed.

  (* inside head: plain tokens are queued *)
  Lemma run_plain_in : forall l f p,
    forallb plain l = true ->
    run_steps enc {| in_head := true; found := f; pending := p |} l
    = ([], {| in_head := true; found := f || existsb decl l; pending := p ++ tag (map rw l) |}).
  Proof.
    induction l as [|t l IH]; intros f p Hl.
    - cbn. rewrite orb_false_r, app_nil_r. reflexivity.
    - cbn [forallb] in Hl. apply andb_true_iff in Hl as [Ht Hl]. cbn [run_steps].
      assert (Hs : step enc {| in_head := true; found := f; pending := p |} t
                   = ([], {| in_head := true; found := f || decl t; pending := p ++ [(rw t, false)] |})).
      { destruct t as [dn dp ds|s|s|ns n a|ns n|ns n a|c|en|er|ty]; cbn [plain] in Ht; cbn [step rw decl in_head found pending];
          rewrite ?orb_false_r; try reflexivity.
        - apply negb_true_iff in Ht. rewrite Ht. reflexivity.
        - apply negb_true_iff in Ht. rewrite Ht. reflexivity.
        - apply negb_true_iff in Ht. destruct (is_name s_meta n) eqn:Em.
          + destruct (rewrite_meta enc a) as [a' fl]. cbn [fst snd andb in_head found pending]. reflexivity.
          + rewrite Ht. cbn [andb]. rewrite orb_false_r. reflexivity. }
      rewrite Hs, (IH _ _ Hl). cbn [tag map app existsb]. rewrite orb_assoc, <- app_assoc. reflexivity.
  Qed.

  Lemma run_steps_app : forall l1 l2 s,
    run_steps enc s (l1 ++ l2) =
    let '(o1, s1) := run_steps enc s l1 in let '(o2, s2) := run_steps enc s1 l2 in (o1 ++ o2, s2).
  Proof.
    induction l1 as [|t l1 IH]; intros l2 s; cbn [app run_steps].
    - destruct (run_steps enc s l2). reflexivity.
    - destruct (step enc s t) as [o1 s1]. rewrite IH. destruct (run_steps enc s1 l1) as [o2 s2].
      destruct (run_steps enc s2 l2) as [o3 s3]. rewrite app_assoc. reflexivity.
  Qed.

  Lemma map_fst_tag l : map fst (tag l) = l.
  Proof. unfold tag. rewrite map_map. cbn. apply map_id. Qed.

  (* THE INJECTION THEOREM *)
  Theorem imc_one_head : forall pre ns h a mid ns' h' post,
    forallb plain pre = true -> forallb plain mid = true -> forallb plain post = true ->
    is_name s_head h = true -> is_name s_head h' = true ->
    IMC enc (pre ++ [TStart ns h a] ++ mid ++ [TEnd ns' h'] ++ post)
    = map rw pre ++ [TStart ns h a] ++
      (if existsb decl pre || existsb decl mid then [] else [injected enc]) ++
      map rw mid ++ [TEnd ns' h'] ++ map rw post.
  Proof.
    intros pre ns h a mid ns' h' post Hpre Hmid Hpost Hh Hh'. unfold IMC, init.
    rewrite run_steps_app, (run_plain_out pre false Hpre). cbn [orb].
    cbn [app run_steps step]. rewrite Hh. cbn [in_head found pending app].
    rewrite run_steps_app, (run_plain_in mid _ _ Hmid). cbn [app run_steps step]. rewrite Hh'.
    cbn [in_head found pending app].
    rewrite (run_plain_out post true Hpost).
    cbn [fst]. rewrite !map_app, !map_fst_tag. cbn [map fst app].
    destruct (existsb decl pre || existsb decl mid); cbn [app map fst]; rewrite ?map_app, ?map_fst_tag; cbn [map fst app];
      rewrite <- ?app_assoc; reflexivity.
  Qed.
End Inj.
