(* C08doctype -- a doctype as Ser writes it is read back by S_tok as exactly that doctype. *)
From Coq Require Import NArith List Bool Arith Lia ZifyBool ZifyN.
From Verif Require Import Sx Str Tok.
From Verif.Gen Require Import Consts Entities Serializer.
From Verif.Model Require Import CharRef TokBase Ser.
From Verif.Spec Require Import CharRef TokSpec.
From Verif.Proofs Require Import C08 SpecTac.
Import ListNotations.
Local Open Scope N_scope.
Ltac s_compute ::= repeat (erewrite sp_iter_step; [ | solve [s_step] ]; cbn [tl]); cbn [sp_iter].

Definition dchar (c : N) : bool := negb (is_space c) && negb (c =? 62).
Definition idchar (q c : N) : bool := negb (c =? q) && negb (c =? 62).
Definition rdn (l : str) : str := map (fun x => lc (nulfix x)) l.

Lemma batch_dname : forall l rest n p s co t o cd, forallb dchar l = true ->
  sp_iter (length l) (mk_tk doctypeNameState (l ++ rest) (CDoctype n p s co) t o cd false)
  = Some (mk_tk doctypeNameState rest (CDoctype (n ++ rdn l) p s co) t o cd false).
Proof.
  induction l as [|c l IH]; intros rest n p s co t o cd Hl.
  - cbn. rewrite app_nil_r. reflexivity.
  - cbn [forallb] in Hl. apply andb_true_iff in Hl as [Hc Hl]. unfold dchar in Hc.
    cbn [length app]. erewrite sp_iter_step.
    2:{ unfold sp_step. cbv beta iota zeta delta [peek]. cbn [st inp hd_error].
        replace (c =? 62) with false by lia. replace (is_space c) with false by lia.
        cbv beta iota zeta delta [name_app advance set_inp set_cur]. cbn [st inp cur tmp out cdata_ok bad tl]. reflexivity. }
    rewrite IH by exact Hl. unfold rdn. cbn [map]. rewrite <- app_assoc. reflexivity.
Qed.

Section Ident.
  Variable q : N.
  Hypothesis Hq : q = 34 \/ q = 39.
  Definition pub_state : tstate := if q =? 34 then doctypePublicIdentifierDoubleQuotedState else doctypePublicIdentifierSingleQuotedState.
  Definition sys_state : tstate := if q =? 34 then doctypeSystemIdentifierDoubleQuotedState else doctypeSystemIdentifierSingleQuotedState.

  Lemma batch_pub : forall l rest n pb sy co t o cd, forallb (idchar q) l = true ->
    sp_iter (length l) (mk_tk pub_state (l ++ rest) (CDoctype n (Some pb) sy co) t o cd false)
    = Some (mk_tk pub_state rest (CDoctype n (Some (pb ++ map nulfix l)) sy co) t o cd false).
  Proof.
    induction l as [|c l IH]; intros rest n pb sy co t o cd Hl.
    - cbn. rewrite app_nil_r. reflexivity.
    - cbn [forallb] in Hl. apply andb_true_iff in Hl as [Hc Hl]. unfold idchar in Hc.
      cbn [length app]. erewrite sp_iter_step.
      2:{ unfold pub_state. destruct Hq as [-> | ->]; cbn [N.eqb Pos.eqb];
          unfold sp_step; cbv beta iota zeta delta [peek]; cbn [st inp hd_error];
          [replace (c =? 34) with false by lia | replace (c =? 39) with false by lia];
          replace (c =? 62) with false by lia;
          cbv beta iota zeta delta [pub_app advance set_inp set_cur]; cbn [st inp cur tmp out cdata_ok bad tl]; reflexivity. }
      rewrite IH by exact Hl. cbn [map]. rewrite <- app_assoc. reflexivity.
  Qed.
  Lemma batch_sys : forall l rest n pb s0 co t o cd, forallb (idchar q) l = true ->
    sp_iter (length l) (mk_tk sys_state (l ++ rest) (CDoctype n pb (Some s0) co) t o cd false)
    = Some (mk_tk sys_state rest (CDoctype n pb (Some (s0 ++ map nulfix l)) co) t o cd false).
  Proof.
    induction l as [|c l IH]; intros rest n pb s0 co t o cd Hl.
    - cbn. rewrite app_nil_r. reflexivity.
    - cbn [forallb] in Hl. apply andb_true_iff in Hl as [Hc Hl]. unfold idchar in Hc.
      cbn [length app]. erewrite sp_iter_step.
      2:{ unfold sys_state. destruct Hq as [-> | ->]; cbn [N.eqb Pos.eqb];
          unfold sp_step; cbv beta iota zeta delta [peek]; cbn [st inp hd_error];
          [replace (c =? 34) with false by lia | replace (c =? 39) with false by lia];
          replace (c =? 62) with false by lia;
          cbv beta iota zeta delta [sys_app advance set_inp set_cur]; cbn [st inp cur tmp out cdata_ok bad tl]; reflexivity. }
      rewrite IH by exact Hl. cbn [map]. rewrite <- app_assoc. reflexivity.
  Qed.
End Ident.

Lemma pubid q p rest n sy t o cd : q = 34 \/ q = 39 -> forallb (idchar q) p = true ->
  exists j, sp_iter j (mk_tk beforeDoctypePublicIdentifierState (q :: p ++ q :: rest) (CDoctype n None sy true) t o cd false)
            = Some (mk_tk afterDoctypePublicIdentifierState rest (CDoctype n (Some (map nulfix p)) sy true) t o cd false).
Proof.
  intros Hq Hp. pose proof (batch_pub q Hq p (q :: rest) n [] sy true t o cd Hp) as Hb.
  exists (1 + (length p + 1))%nat.
  destruct Hq as [-> | ->]; unfold pub_state in Hb; cbn [N.eqb Pos.eqb] in Hb.
  - erewrite sp_iter_app; [|s_compute; reflexivity]. erewrite sp_iter_app; [|exact Hb]. s_compute. reflexivity.
  - erewrite sp_iter_app; [|s_compute; reflexivity]. erewrite sp_iter_app; [|exact Hb]. s_compute. reflexivity.
Qed.

Definition sys_entry (X : tstate) : Prop :=
  X = betweenDoctypePublicAndSystemIdentifiersState \/ X = beforeDoctypeSystemIdentifierState \/ X = afterDoctypePublicIdentifierState.
Lemma sysid X q s rest n pb t o cd : sys_entry X -> q = 34 \/ q = 39 -> forallb (idchar q) s = true ->
  exists j, sp_iter j (mk_tk X (q :: s ++ q :: rest) (CDoctype n pb None true) t o cd false)
            = Some (mk_tk afterDoctypeSystemIdentifierState rest (CDoctype n pb (Some (map nulfix s)) true) t o cd false).
Proof.
  intros HX Hq Hs. pose proof (batch_sys q Hq s (q :: rest) n pb [] true t o cd Hs) as Hb.
  exists (1 + (length s + 1))%nat.
  destruct Hq as [-> | ->]; unfold sys_state in Hb; cbn [N.eqb Pos.eqb] in Hb;
    destruct HX as [-> | [-> | ->]];
    (erewrite sp_iter_app; [|s_compute; reflexivity]); (erewrite sp_iter_app; [|exact Hb]); s_compute; reflexivity.
Qed.

(* what Ser picks as quote character never occurs in the identifier unless it reports an error *)
Definition id_ok (s : str) : bool := negb (has_char 34 s && has_char 39 s) && negb (has_char 62 s).
Definition qof (s : str) : N := if has_char 34 s then 39 else 34.
Lemma has_char_false c s : has_char c s = false -> forallb (fun x => negb (x =? c)) s = true.
Proof.
  unfold has_char. induction s as [|x s IH]; [reflexivity|]. cbn [existsb forallb]. intro H.
  apply orb_false_elim in H as [H1 H2]. rewrite (IH H2). rewrite N.eqb_sym in H1. rewrite H1. reflexivity.
Qed.
Lemma id_ok_idchar s : id_ok s = true -> (qof s = 34 \/ qof s = 39) /\ forallb (idchar (qof s)) s = true.
Proof.
  unfold id_ok, qof. intro H. apply andb_true_iff in H as [H1 H2]. apply negb_true_iff in H1, H2.
  pose proof (has_char_false 62 s H2) as H62.
  destruct (has_char 34 s) eqn:E34.
  - cbn [andb] in H1. split; [right; reflexivity|]. pose proof (has_char_false 39 s H1) as H39.
    unfold idchar. rewrite forallb_forall in *. intros x Hx. rewrite (H39 x Hx), (H62 x Hx). reflexivity.
  - split; [left; reflexivity|]. pose proof (has_char_false 34 s E34) as H34.
    unfold idchar. rewrite forallb_forall in *. intros x Hx. rewrite (H34 x Hx), (H62 x Hx). reflexivity.
Qed.

Lemma mdo_doctype i cu t o cd :
  sp_step (mk_tk markupDeclarationOpenState ([68;79;67;84;89;80;69] ++ i) cu t o cd false)
  = (mk_tk doctypeState i (CDoctype [] None None true) t o cd false, true).
Proof. reflexivity. Qed.
Lemma adn_public i n p s co t o cd :
  sp_step (mk_tk afterDoctypeNameState ([80;85;66;76;73;67] ++ i) (CDoctype n p s co) t o cd false)
  = (mk_tk afterDoctypePublicKeywordState i (CDoctype n p s co) t o cd false, true).
Proof. reflexivity. Qed.
Lemma adn_system i n p s co t o cd :
  sp_step (mk_tk afterDoctypeNameState ([83;89;83;84;69;77] ++ i) (CDoctype n p s co) t o cd false)
  = (mk_tk afterDoctypeSystemKeywordState i (CDoctype n p s co) t o cd false, true).
Proof. reflexivity. Qed.

Lemma bdn_char c i n p s co t o cd : dchar c = true ->
  sp_step (mk_tk beforeDoctypeNameState (c :: i) (CDoctype n p s co) t o cd false)
  = (mk_tk doctypeNameState i (CDoctype [lc (nulfix c)] p s co) t o cd false, true).
Proof.
  intro H. unfold dchar in H. unfold sp_step. cbv beta iota zeta delta [peek]. cbn [st inp hd_error].
  replace (c =? 62) with false by lia. replace (is_space c) with false by lia. reflexivity.
Qed.

Lemma kw_public i n t o cd :
  sp_iter 3 (mk_tk doctypeNameState (s_public ++ i) (CDoctype n None None true) t o cd false)
  = Some (mk_tk beforeDoctypePublicIdentifierState i (CDoctype n None None true) t o cd false).
Proof.
  unfold s_public. cbn [app]. erewrite sp_iter_step; [|solve [s_step]]. cbn [tl].
  change (80 :: 85 :: 66 :: 76 :: 73 :: 67 :: 32 :: i) with ([80;85;66;76;73;67] ++ 32 :: i).
  erewrite sp_iter_step; [|apply adn_public]. s_compute. reflexivity.
Qed.
Lemma kw_system i n t o cd :
  sp_iter 3 (mk_tk doctypeNameState (s_system ++ 32 :: i) (CDoctype n None None true) t o cd false)
  = Some (mk_tk beforeDoctypeSystemIdentifierState i (CDoctype n None None true) t o cd false).
Proof.
  unfold s_system. cbn [app]. erewrite sp_iter_step; [|solve [s_step]]. cbn [tl].
  change (83 :: 89 :: 83 :: 84 :: 69 :: 77 :: 32 :: i) with ([83;89;83;84;69;77] ++ 32 :: i).
  erewrite sp_iter_step; [|apply adn_system]. s_compute. reflexivity.
Qed.

Lemma apid_space i c t o cd :
  sp_iter 1 (mk_tk afterDoctypePublicIdentifierState (32 :: i) c t o cd false)
  = Some (mk_tk betweenDoctypePublicAndSystemIdentifiersState i c t o cd false).
Proof. reflexivity. Qed.

Definition dname_ok (n : str) : bool := match n with c :: n' => dchar c && forallb dchar n' | [] => false end.
Definition rd_id (x : option str) : option str := if nonempty x then Some (map nulfix (oget x)) else None.

(* DOCTYPES.  For every doctype token with a name (non-empty, no whitespace, no ">") and identifiers that Ser can
   quote (not both kinds of quote inside -- otherwise Ser reports an error -- and no ">"): the text Ser writes is
   read by S_tok from the data state as exactly one doctype token with that name (ASCII-lower-cased), those
   identifiers (an empty identifier is not written and reads as absent), force-quirks off. *)
Theorem doctype_roundtrip n pub sys rest cu t out cd :
  dname_ok n = true ->
  (nonempty pub = true -> id_ok (oget pub) = true) -> (nonempty sys = true -> id_ok (oget sys) = true) ->
  exists j, sp_iter j (mk_tk dataState (fst (ser_doctype (Some n) pub sys) ++ rest) cu t out cd false)
            = Some (mk_tk dataState rest (CDoctype (rdn n) (rd_id pub) (rd_id sys) true) t
                      (ODoctype (rdn n) (rd_id pub) (rd_id sys) true :: out) cd false).
Proof.
  intros Hn Hp Hs. destruct n as [|c0 n']; [discriminate Hn|]. cbn [dname_ok] in Hn. apply andb_true_iff in Hn as [Hc0 Hn'].
  (* the common prefix: "<!DOCTYPE " and the name *)
  assert (Hpre : forall tail, exists j, sp_iter j (mk_tk dataState (s_doctype ++ (c0 :: n') ++ tail) cu t out cd false)
                    = Some (mk_tk doctypeNameState tail (CDoctype (rdn (c0 :: n')) None None true) t out cd false)).
  { intro tail. exists (2 + (1 + (2 + length n')))%nat.
    erewrite sp_iter_app; [|unfold s_doctype; cbn [app]; s_compute; reflexivity].
    erewrite sp_iter_app; [|cbn [sp_iter]; rewrite (mdo_doctype (32 :: (c0 :: n') ++ tail)); reflexivity].
    erewrite sp_iter_app; [|cbn [app]; erewrite sp_iter_step; [|solve [s_step]]; cbn [tl sp_iter];
                            rewrite (bdn_char c0 _ _ _ _ _ _ _ _ Hc0); reflexivity].
    rewrite (batch_dname n' tail _ None None true t out cd Hn'). reflexivity. }
  unfold ser_doctype, rd_id.
  destruct (nonempty pub) eqn:Epub.
  - destruct (id_ok_idchar (oget pub) (Hp eq_refl)) as [Hq Hpc]. fold (qof (oget pub)). set (q := qof (oget pub)) in *.
    destruct (nonempty sys) eqn:Esys.
    + destruct (id_ok_idchar (oget sys) (Hs eq_refl)) as [Hq' Hsc]. fold (qof (oget sys)). set (q' := qof (oget sys)) in *.
      cbn [fst]. rewrite <- !app_assoc. cbn [app].
      destruct (Hpre (s_public ++ q :: oget pub ++ q :: 32 :: q' :: oget sys ++ q' :: 62 :: rest)) as [j1 H1].
      destruct (pubid q (oget pub) (32 :: q' :: oget sys ++ q' :: 62 :: rest) (rdn (c0 :: n')) None t out cd Hq Hpc) as [j2 H2].
      destruct (sysid betweenDoctypePublicAndSystemIdentifiersState q' (oget sys) (62 :: rest) (rdn (c0 :: n')) (Some (map nulfix (oget pub))) t out cd
                  (or_introl eq_refl) Hq' Hsc) as [j3 H3].
      exists (j1 + (3 + (j2 + (1 + (j3 + 1)))))%nat.
      erewrite sp_iter_app; [|exact H1]. erewrite sp_iter_app; [|apply kw_public].
      erewrite sp_iter_app; [|exact H2]. erewrite sp_iter_app; [|apply apid_space].
      erewrite sp_iter_app; [|exact H3]. s_compute. reflexivity.
    + cbn [fst]. rewrite <- !app_assoc. cbn [app].
      destruct (Hpre (s_public ++ q :: oget pub ++ q :: 62 :: rest)) as [j1 H1].
      destruct (pubid q (oget pub) (62 :: rest) (rdn (c0 :: n')) None t out cd Hq Hpc) as [j2 H2].
      exists (j1 + (3 + (j2 + 1)))%nat.
      erewrite sp_iter_app; [|exact H1]. erewrite sp_iter_app; [|apply kw_public].
      erewrite sp_iter_app; [|exact H2]. s_compute. reflexivity.
  - destruct (nonempty sys) eqn:Esys.
    + destruct (id_ok_idchar (oget sys) (Hs eq_refl)) as [Hq' Hsc]. fold (qof (oget sys)). set (q' := qof (oget sys)) in *.
      cbn [fst]. rewrite <- !app_assoc. cbn [app].
      destruct (Hpre (s_system ++ 32 :: q' :: oget sys ++ q' :: 62 :: rest)) as [j1 H1].
      destruct (sysid beforeDoctypeSystemIdentifierState q' (oget sys) (62 :: rest) (rdn (c0 :: n')) None t out cd
                  (or_intror (or_introl eq_refl)) Hq' Hsc) as [j3 H3].
      exists (j1 + (3 + (j3 + 1)))%nat.
      erewrite sp_iter_app; [|exact H1]. erewrite sp_iter_app; [|apply kw_system].
      erewrite sp_iter_app; [|exact H3]. s_compute. reflexivity.
    + cbn [fst]. rewrite <- !app_assoc. cbn [app].
      destruct (Hpre (62 :: rest)) as [j1 H1].
      exists (j1 + 1)%nat. erewrite sp_iter_app; [|exact H1]. s_compute. reflexivity.
Qed.
