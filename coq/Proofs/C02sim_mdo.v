From Coq Require Import NArith List Bool Arith Lia ZifyBool ZifyN.
From Verif Require Import Sx Str.
From Verif.Gen Require Import Entities Tokenizer.
From Verif.Model Require Import CharRef TokBase TokHand C02.
From Verif.Spec Require Import CharRef TokSpec.
From Verif.Proofs Require Import C02a C02dict C08 C02sim.
From Verif.Proofs Require Import C02simtac.
Import ListNotations.
Local Open Scope N_scope.

Lemma lc_match c e : is_upper e = true -> (lc c =? lc e) = ((c =? e + 32) || (c + 32 =? e + 32)).
Proof. unfold lc, ascii_lower, is_upper. intro He. rewrite He. destruct ((65 <=? c) && (c <=? 90)) eqn:Ec; lia. Qed.

Lemma next_are_kw W : forallb is_upper W = true -> forall i, next_are true W i = kw_match false (map (fun e => e + 32) W) i.
Proof.
  induction W as [|e W IH]; intros HW i; [reflexivity|].
  cbn [forallb] in HW. apply andb_true_iff in HW as [He HW].
  cbn [next_are kw_match map]. destruct i as [|c r]; [reflexivity|].
  rewrite (lc_match c e He). rewrite IH by exact HW. reflexivity.
Qed.
Lemma next_are_exact w : forall i, next_are false w i = kw_match true w i.
Proof. induction w as [|e w IH]; intro i; [reflexivity|]. cbn [next_are kw_match]. destruct i as [|c r]; [reflexivity|]. rewrite IH. reflexivity. Qed.

Definition mdo_alt (i : str) (cu : ctok) (t : str) (o : list otok) (cd : bool) : tk * bool :=
  let bogus := (mk_tk bogusCommentState i (CComment []) t o cd false, true) in
  match i with
  | c :: r =>
      if c =? 45 then
        match r with
        | c2 :: r2 => if c2 =? 45 then (mk_tk commentStartState r2 (CComment []) t o cd false, true) else bogus
        | [] => bogus
        end
      else if (c =? 100) || (c =? 68) then
        match kw_match false kw_octype r with
        | Some r' => (mk_tk doctypeState r' (CDoctype [] None None true) t o cd false, true)
        | None => bogus
        end
      else if (c =? 91) && cd then
        match kw_match true kw_CDATA r with
        | Some r' => (mk_tk cdataSectionState r' cu t o cd false, true)
        | None => bogus
        end
      else bogus
  | [] => bogus
  end.

Lemma sp_mdo_eq i cu t o cd : sp_step (mk_tk markupDeclarationOpenState i cu t o cd false) = mdo_alt i cu t o cd.
Proof.
  unfold sp_step, mdo_alt. cbn [st inp]. cbv beta iota zeta delta [peek go set_cur set_inp set_st]. cbn [st inp cur tmp out cdata_ok bad hd_error].
  rewrite (next_are_kw w_DOCTYPE eq_refl). rewrite !next_are_exact.
  destruct i as [|c r]; [reflexivity|].
  change (map (fun e => e + 32) w_DOCTYPE) with (100 :: kw_octype). change w_CDATA with (91 :: kw_CDATA). cbn [kw_match].
  destruct (c =? 45) eqn:E45.
  { apply N.eqb_eq in E45. subst c. eval_ground. cbn [orb].
    destruct r as [|c2 r2]; [reflexivity|]. destruct (c2 =? 45); reflexivity. }
  replace (c + 32 =? 100) with (c =? 68) by lia.
  destruct ((c =? 100) || (c =? 68)) eqn:Ed.
  { destruct (kw_match false kw_octype r); [reflexivity|].
    replace (c =? 91) with false by lia. reflexivity. }
  destruct (c =? 91) eqn:E91; cbn [andb]; [|reflexivity].
  destruct (kw_match true kw_CDATA r); [|destruct cd; reflexivity].
  destruct cd; reflexivity.
Qed.

Lemma sim_markupDeclarationOpenState : forall m s, R m s -> st m = markupDeclarationOpenState -> simok s (step_markupDeclarationOpenState m).
Proof.
  intros m s HR Hst.
  destruct m as [ms mi mc mt mo mcd mb]; destruct s as [ss si sc st' so scd sb];
  unfold R, sst, sinp in HR; cbn [st inp cur tmp out cdata_ok bad] in *;
  destruct HR as (Hs & Hi & Ht & Ho & Hcd & Hb & Hsb & Hc); subst; cbv beta iota. clear Hc.
  unfold step_markupDeclarationOpenState. cbn [inp cdata_ok].
  assert (Hfin : forall r, bad (fst r) = false -> wk (fst r) = true -> snd r = true ->
            cdata_ok (fst r) = mcd -> (covered (fst r) = false -> mcd = true) ->
            (exists s', mdo_alt mi sc mt (flatr mo) mcd = (s', true) /\ R (fst r) s') ->
            simok (mk_tk markupDeclarationOpenState mi sc mt (flatr mo) mcd false) r).
  { intros r Hb Hw Hs Hcd Hcv (s' & He & HR). unfold simok. cbn [cdata_ok].
    split; [exact Hb|]. split; [exact Hw|]. split; [exact Hcd|]. split; [exact Hcv|]. rewrite Hs.
    exists 1%nat, s'. split; [|exact HR]. cbn [sp_iter]. rewrite sp_mdo_eq, He. reflexivity. }
  apply Hfin; unfold mdo_alt;
  destruct mi as [|c r]; try reflexivity;
  try (destruct (c =? 45) eqn:E45; [destruct r as [|c2 r2]; [|destruct (c2 =? 45) eqn:E2]|
        destruct ((c =? 100) || (c =? 68)) eqn:Ed; [destruct (kw_match false kw_octype r) eqn:Ek|
          destruct ((c =? 91) && mcd) eqn:Ec; [destruct (kw_match true kw_CDATA r) eqn:Ek|]]]);
  try reflexivity; cbn [fst snd]; m_norm;
  try (intro Hcv; first [discriminate Hcv | (apply andb_true_iff in Ec; destruct Ec; assumption)]);
  (eexists; split; [reflexivity|]); r_solve.
Qed.
