From Coq Require Import NArith List Bool Arith Lia ZifyBool ZifyN.
From Verif Require Import Sx Str.
From Verif.Gen Require Import Entities Tokenizer.
From Verif.Model Require Import CharRef TokBase TokHand C02.
From Verif.Spec Require Import CharRef TokSpec.
From Verif.Proofs Require Import C02a C02dict C08 C02sim.
From Verif.Proofs Require Import C02simtac.
Import ListNotations.
Local Open Scope N_scope.

Lemma batch_comment_nul (p : N -> bool) :
  (forall c, p c = true -> (c =? 62) = false) ->
  forall l rest d t o cd, forallb p l = true ->
  sp_iter (length l) (mk_tk bogusCommentState (l ++ rest) (CComment d) t o cd false)
  = Some (mk_tk bogusCommentState rest (CComment (d ++ map nulfix l)) t o cd false).
Proof.
  intros Hp l. induction l as [|c l IH]; intros rest d t o cd Hl.
  - cbn. rewrite app_nil_r. reflexivity.
  - cbn [forallb] in Hl. apply andb_true_iff in Hl as [Hc Hl].
    cbn [length app]. erewrite sp_iter_step.
    2:{ unfold sp_step. cbv beta iota zeta delta [peek]. cbn [st inp hd_error]. rewrite (Hp c Hc).
        cbv beta iota zeta delta [data_app advance set_inp set_cur]. cbn [cur inp tl st tmp out cdata_ok bad]. reflexivity. }
    rewrite IH by exact Hl. cbn [map]. rewrite <- app_assoc. reflexivity.
Qed.

Lemma sim_bogusCommentState : forall m s, R m s -> st m = bogusCommentState -> simok s (step_bogusCommentState m).
Proof.
  intros m s HR Hst.
  destruct m as [ms mi mc mt mo mcd mb]; destruct s as [ss si sc st' so scd sb];
  unfold R, sst, sinp in HR; cbn [st inp cur tmp out cdata_ok bad] in *;
  destruct HR as (Hs & Hi & Ht & Ho & Hcd & Hb & Hsb & Hc); subst; cbv beta iota.
  eval_eqb. change (sc = CComment []) in Hc. subst sc. set (d := @nil N).
  unfold step_bogusCommentState, chars_until. cbn [inp].
  set (p := fun c => negb (c =? 62)).
  unfold simok. cbn [fst snd]. m_norm.
  split; [reflexivity|]. split; [reflexivity|]. side2.
  pose proof (take_drop_while p mi) as Hsplit.
  pose proof (take_while_all p mi) as Hall.
  pose proof (drop_while_head p mi) as Hhead.
  set (l := take_while p mi) in *. set (rest := drop_while p mi) in *.
  assert (Hb : forall rest', rest = rest' -> sp_iter (length l) (mk_tk bogusCommentState (l ++ rest') (CComment d) mt (flatr mo) mcd false)
        = Some (mk_tk bogusCommentState rest' (CComment (d ++ map nulfix l)) mt (flatr mo) mcd false)).
  { intros rest' _. apply (batch_comment_nul p); [|exact Hall]. intros c Hc. unfold p in Hc. apply negb_true_iff in Hc. exact Hc. }
  rewrite <- Hsplit.
  destruct rest as [|x r]; exists (length l + 1)%nat; eexists; (split; [erewrite sp_iter_app by (apply Hb; reflexivity)|]).
  - cbn [sp_iter]. unfold sp_step. cbv beta iota zeta delta [peek]. cbn [st inp hd_error]. s_norm. reflexivity.
  - unfold R. cbn [st inp cur tmp out cdata_ok bad tl]. eval_eqb. cbn [cur_dead].
    repeat split; try reflexivity. left; reflexivity.
  - assert (Hx : (x =? 62) = true) by (unfold p in Hhead; apply negb_false_iff; exact Hhead).
    cbn [sp_iter]. unfold sp_step. cbv beta iota zeta delta [peek]. cbn [st inp hd_error]. rewrite Hx. s_norm. reflexivity.
  - unfold R. cbn [st inp cur tmp out cdata_ok bad tl]. eval_eqb. cbn [cur_dead].
    repeat split; try reflexivity. left; reflexivity.
Qed.
