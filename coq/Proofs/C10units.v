(* C10units -- the lexical half of C10 the way a parser reads it: a textarea element (allowed by the sanitizer) is
   read in the RCDATA state.  For every walker stream given as units -- tokens outside textarea, and textarea
   elements holding text (which is all a parsed tree can put there) -- the sanitized, serialized markup is read back,
   with the parser's state switch after <textarea>, as exactly the sanitized units. *)
From Coq Require Import NArith List Bool Arith Lia.
From Verif Require Import Sx Str Tok.
From Verif.Gen Require Import Consts Sanitizer Serializer.
From Verif.Model Require Import CharRef TokBase Ser C09 C10.
From Verif.Spec Require Import TokSpec.
From Verif.Proofs Require Import C09 C10 C08 SpecTac C08comment C08doctype C08tag C08raw C08units C10lex.
Import ListNotations.
Local Open Scope N_scope.

Definition html_ns_s : str := [104;116;116;112;58;47;47;119;119;119;46;119;51;46;111;114;103;47;49;57;57;57;47;120;104;116;109;108].

(* units a tree walker produces for a parsed tree: any token, or an HTML textarea with text *)
Inductive wunit : Type :=
| WTok (t : token)
| WTextarea (a : attrs) (text : str).
Definition wflatten (u : wunit) : list token :=
  match u with
  | WTok t => [t]
  | WTextarea a text => [TStart (Some html_ns_s) s_textarea a; TChars text; TEnd (Some html_ns_s) s_textarea]
  end.
Definition wunit_ok (u : wunit) : Prop :=
  match u with
  | WTok t => walker_tok t /\ match t with TStart _ n _ | TEmpty _ n _ | TEnd _ n => str_eqb n s_textarea = false | _ => True end
  | WTextarea _ text => forallb (fun c => negb (c =? 0)) text = true
  end.
(* what the sanitizer makes of a unit *)
Definition san_unit (css : str -> str) (u : wunit) : list unit :=
  match u with
  | WTok t => map UTok (San default_lists css [t])
  | WTextarea a text => [URc (Some html_ns_s) s_textarea (san_attrs default_lists css a) text]
  end.

Lemma textarea_allowed : element_allowed default_lists (Some html_ns_s) s_textarea = true.
Proof. vm_compute. reflexivity. Qed.

Lemma San_wflatten css u : San default_lists css (wflatten u) = flat_map flatten (san_unit css u).
Proof.
  destruct u as [t|a text]; cbn [wflatten san_unit].
  - unfold San. cbn [flat_map]. rewrite app_nil_r. destruct (sanitize default_lists css t); reflexivity.
  - unfold San. cbn [flat_map sanitize]. rewrite textarea_allowed. reflexivity.
Qed.
Lemma San_app css a b : San default_lists css (a ++ b) = San default_lists css a ++ San default_lists css b.
Proof. unfold San. apply flat_map_app. Qed.
Lemma San_units css us :
  San default_lists css (flat_map wflatten us) = flat_map flatten (flat_map (san_unit css) us).
Proof.
  induction us as [|u us IH]; [reflexivity|]. cbn [flat_map]. rewrite San_app, IH, San_wflatten, flat_map_app. reflexivity.
Qed.

Lemma san_unit_ok o css u : wunit_ok u -> Forall (unit_ok o) (san_unit css u).
Proof.
  destruct u as [t|a text]; cbn [wunit_ok san_unit]; intro H.
  - destruct H as [Hw _]. pose proof (sanitized_is_safe o css [t] (Forall_cons _ Hw (Forall_nil _))) as S.
    induction (San default_lists css [t]) as [|x l IH]; [constructor|].
    inversion S; subst. constructor; [assumption|apply IH; assumption].
  - constructor; [|constructor]. cbn [unit_ok]. split; [reflexivity|]. split; [apply san_attrs_names_ok|]. exact H.
Qed.

Theorem sanitized_units_read_back o : qc_ok o -> forall us txt errs rest cu tm out0 cd,
  Forall wunit_ok us -> san_ser o (flat_map wflatten us) = Some (txt, errs) ->
  exists k', reads o (flat_map (san_unit (fun s => s)) us) (mk_tk dataState (txt ++ rest) cu tm out0 cd false) k' /\
             st k' = dataState /\ inp k' = rest /\
             out k' = rev (flat_map (rd_unit o) (flat_map (san_unit (fun s => s)) us)) ++ out0.
Proof.
  intros Hq us txt errs rest cu tm out0 cd Hw Hs. unfold san_ser, san_default, Ser in Hs. rewrite San_units in Hs.
  assert (HF : Forall (unit_ok o) (flat_map (san_unit (fun s => s)) us)).
  { clear Hs. induction us as [|u us IH]; [constructor|]. inversion Hw; subst. cbn [flat_map]. apply Forall_app. split.
    - apply san_unit_ok. assumption.
    - apply IH. assumption. }
  destruct (units_roundtrip o Hq _ txt errs rest cu tm out0 cd HF Hs) as [k' [H1 [H2 [H3 [H4 _]]]]].
  exists k'. auto.
Qed.
