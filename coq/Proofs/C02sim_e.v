(* C02sim_e -- per-state simulation lemmas (M_tok state method vs S_tok), see Proofs/C02sim.v and C02simtac.v.
   Each lemma:  R m s -> st m = X -> wk m = true -> plain m = true -> simok s (step_X m). *)
From Coq Require Import NArith List Bool Arith Lia ZifyBool ZifyN.
From Verif Require Import Sx Str.
From Verif.Gen Require Import Entities Tokenizer.
From Verif.Model Require Import CharRef TokBase TokHand C02.
From Verif.Spec Require Import CharRef TokSpec.
From Verif.Proofs Require Import C02a C02dict C08 C02sim C02simtac.
Import ListNotations.
Local Open Scope N_scope.

Lemma sim_attributeValueDoubleQuotedState : forall m s, R m s -> st m = attributeValueDoubleQuotedState -> wk m = true -> plain m = true -> simok s (step_attributeValueDoubleQuotedState m).
Proof. sim_state step_attributeValueDoubleQuotedState. all: (batch_goal batch_val). Qed.

Lemma sim_attributeValueUnQuotedState : forall m s, R m s -> st m = attributeValueUnQuotedState -> wk m = true -> plain m = true -> simok s (step_attributeValueUnQuotedState m).
Proof. sim_state step_attributeValueUnQuotedState. all: (batch_goal batch_val). Qed.

Lemma sim_commentEndDashState : forall m s, R m s -> st m = commentEndDashState -> wk m = true -> plain m = true -> simok s (step_commentEndDashState m).
Proof. sim_state step_commentEndDashState. Qed.

Lemma sim_rawtextState : forall m s, R m s -> st m = rawtextState -> wk m = true -> plain m = true -> simok s (step_rawtextState m).
Proof. sim_state step_rawtextState. all: (batch_goal batch_emit). Qed.

Lemma sim_scriptDataDoubleEscapeStartState : forall m s, R m s -> st m = scriptDataDoubleEscapeStartState -> wk m = true -> plain m = true -> simok s (step_scriptDataDoubleEscapeStartState m).
Proof. sim_state step_scriptDataDoubleEscapeStartState. Qed.

Lemma sim_scriptDataLessThanSignState : forall m s, R m s -> st m = scriptDataLessThanSignState -> wk m = true -> plain m = true -> simok s (step_scriptDataLessThanSignState m).
Proof. sim_state step_scriptDataLessThanSignState. Qed.

Lemma sim_selfClosingStartTagState : forall m s, R m s -> st m = selfClosingStartTagState -> wk m = true -> plain m = true -> simok s (step_selfClosingStartTagState m).
Proof. sim_state step_selfClosingStartTagState. Qed.

