From Coq Require Import NArith List Bool Arith Lia.
From Verif Require Import Sx Str Tok Sweep.
From Verif.Gen Require Import Sanitizer Consts.
From Verif.Model Require Import C09.
From Verif.Spec Require Import Url.
Import ListNotations.
Local Open Scope N_scope.

(* ---------- elements and attributes ---------- *)
Section Gate.
Variable L : lists.
Variable css : str -> str.

Definition tag_allowed (t : token) : Prop :=
  match t with
  | TStart ns n _ | TEnd ns n | TEmpty ns n _ => element_allowed L ns n = true
  | _ => True
  end.

Lemma sanitize_elements t t' : sanitize L css t = Some t' -> tag_allowed t'.
Proof.
  destruct t; cbn [sanitize]; intro H; inversion H; subst; cbn; auto.
  - destruct (element_allowed L ns name) eqn:E; cbn; [exact E | exact I].
  - destruct (element_allowed L ns name) eqn:E; cbn; [exact E | exact I].
  - destruct (element_allowed L ns name) eqn:E; cbn; [exact E | exact I].
Qed.

Lemma sanitize_no_comment t t' : sanitize L css t = Some t' -> match t' with TComment _ => False | _ => True end.
Proof.
  destruct t; cbn [sanitize]; intro H; inversion H; subst; try exact I;
    destruct (element_allowed L ns name); exact I.
Qed.

Lemma sanitize_comment_dropped s : sanitize L css (TComment s) = None.
Proof. reflexivity. Qed.

(* a disallowed tag becomes exactly one Characters token; every other non-tag token passes unchanged *)
Lemma sanitize_disallowed_is_text t :
  (match t with TStart ns n _ | TEnd ns n | TEmpty ns n _ => element_allowed L ns n = false | _ => False end) ->
  exists s, sanitize L css t = Some (TChars s).
Proof.
  destruct t; cbn [sanitize]; intro H; try contradiction; rewrite H; cbn; eexists; reflexivity.
Qed.

Lemma sanitize_other_unchanged t :
  (match t with TStart _ _ _ | TEnd _ _ | TEmpty _ _ _ | TComment _ => False | _ => True end) ->
  sanitize L css t = Some t.
Proof. destruct t; cbn; intro H; try contradiction; reflexivity. Qed.

Lemma san_attrs_keys a : forallb (fun kv => mem_key (fst kv) L.(l_attributes)) (san_attrs L css a) = true.
Proof.
  unfold san_attrs. rewrite forallb_forall. intros kv Hin.
  apply in_map_iff in Hin as [kv1 [E1 Hin]]. apply in_map_iff in Hin as [kv2 [E2 Hin]].
  apply filter_In in Hin as [Hin _]. apply filter_In in Hin as [_ Hk].
  assert (K : fst kv = fst kv2).
  { rewrite <- E1. destruct (akey_eqb (fst kv1) style_key); cbn [fst]; rewrite <- E2;
      destruct (mem_key (fst kv2) (l_ref_attrs L)); reflexivity. }
  rewrite K. exact Hk.
Qed.

Lemma san_attrs_uri_kept a kv :
  In kv (san_attrs L css a) -> mem_key (fst kv) L.(l_uri_attrs) = true ->
  exists v0, In (fst kv, v0) a /\ uri_kept L v0 = true.
Proof.
  unfold san_attrs. intros Hin Hu.
  apply in_map_iff in Hin as [kv1 [E1 Hin]]. apply in_map_iff in Hin as [kv2 [E2 Hin]].
  apply filter_In in Hin as [Hin Hk]. apply filter_In in Hin as [Hin _].
  assert (K : fst kv = fst kv2).
  { rewrite <- E1. destruct (akey_eqb (fst kv1) style_key); cbn [fst]; rewrite <- E2;
      destruct (mem_key (fst kv2) (l_ref_attrs L)); reflexivity. }
  exists (snd kv2). split.
  - rewrite K. destruct kv2; exact Hin.
  - rewrite <- K in Hk. rewrite Hu in Hk. cbn in Hk. exact Hk.
Qed.
End Gate.

(* ---------- the URI pipeline lets through no scheme the browser would see and the list does not allow ---------- *)
Lemma replace_fuel_step f old new x s' :
  replace_fuel (S f) old new (x :: s') =
  if starts_with old (x :: s') then new ++ replace_fuel f old new (skipn (length old) (x :: s'))
  else x :: replace_fuel f old new s'.
Proof. reflexivity. Qed.

Lemma replace_fuel_prefix old new (P rest : str) c0 old' :
  old = c0 :: old' -> forallb (fun c => negb (c =? c0)) P = true ->
  replace_fuel (S (length (P ++ rest))) old new (P ++ rest) = P ++ replace_fuel (S (length rest)) old new rest.
Proof.
  intros Eo. induction P as [|x P IH]; intro HP; [reflexivity|].
  cbn [forallb] in HP. apply andb_true_iff in HP as [Hx HP]. apply negb_true_iff in Hx.
  cbn [app length]. rewrite replace_fuel_step.
  assert (Hs : starts_with old (x :: P ++ rest) = false).
  { rewrite Eo. cbn [starts_with]. rewrite (N.eqb_sym c0 x), Hx. reflexivity. }
  rewrite Hs. f_equal. apply IH. exact HP.
Qed.

Lemma replace_all_prefix old new (P rest : str) c0 old' :
  old = c0 :: old' -> forallb (fun c => negb (c =? c0)) P = true ->
  replace_all old new (P ++ rest) = P ++ replace_all old new rest.
Proof.
  intros Eo HP. unfold replace_all. rewrite Eo. rewrite <- Eo.
  apply (replace_fuel_prefix old new P rest c0 old' Eo HP).
Qed.

Lemma unescape_prefix (P rest : str) :
  forallb (fun c => negb (c =? 38)) P = true -> unescape (P ++ rest) = P ++ unescape rest.
Proof.
  intro HP. unfold unescape.
  rewrite (replace_all_prefix s_lt [60] P rest 38 [108;116;59] eq_refl HP).
  rewrite (replace_all_prefix s_gt [62] P _ 38 [103;116;59] eq_refl HP).
  rewrite (replace_all_prefix s_amp [38] P _ 38 [97;109;112;59] eq_refl HP). reflexivity.
Qed.

(* facts about ASCII characters, by an exhaustive sweep over 0..127 *)
Definition ascii_facts (c : N) : bool :=
  implb (scheme_char c) (negb (in_rng uri_strip_class c) && negb (c =? 38) && negb (c =? 65533) && (c <? 128)
                         && mem_N (ascii_lower c) scheme_chars && negb (mem_N (ascii_lower c) url_lstrip_chars)
                         && negb (mem_N (ascii_lower c) url_remove_chars) && negb (ascii_lower c =? 58)
                         && scheme_char (ascii_lower c) && (ascii_lower (ascii_lower c) =? ascii_lower c))
  && implb (c0_or_space c) (in_rng uri_strip_class c && negb (c =? 38))
  && implb (is_alpha c) (is_alpha (ascii_lower c)).
Lemma ascii_sweep : all_below 128 ascii_facts = true.
Proof. vm_compute. reflexivity. Qed.

Lemma scheme_char_ascii c : scheme_char c = true -> c < 128.
Proof. unfold scheme_char, is_alpha, is_upper, is_lower, is_digit. lia. Qed.
Lemma c0_ascii c : c0_or_space c = true -> c < 128.
Proof. unfold c0_or_space. lia. Qed.

Lemma scheme_char_facts c : scheme_char c = true ->
  in_rng uri_strip_class c = false /\ (c =? 38) = false /\ mem_N (ascii_lower c) scheme_chars = true /\
  mem_N (ascii_lower c) url_lstrip_chars = false /\ mem_N (ascii_lower c) url_remove_chars = false /\
  (ascii_lower c =? 58) = false /\ c < 128 /\ ascii_lower (ascii_lower c) = ascii_lower c.
Proof.
  intro H. pose proof (all_below_spec _ _ ascii_sweep c (scheme_char_ascii c H)) as F. unfold ascii_facts in F.
  rewrite H in F. cbn [implb] in F. apply andb_true_iff in F as [F _]. apply andb_true_iff in F as [F _].
  repeat (apply andb_true_iff in F as [F ?]).
  repeat match goal with X : negb _ = true |- _ => apply negb_true_iff in X end.
  repeat split; try assumption. apply N.ltb_lt. assumption. apply N.eqb_eq. assumption.
Qed.

Lemma c0_facts c : c0_or_space c = true -> in_rng uri_strip_class c = true /\ (c =? 38) = false.
Proof.
  intro H. pose proof (all_below_spec _ _ ascii_sweep c (c0_ascii c H)) as F. unfold ascii_facts in F.
  apply andb_true_iff in F as [F _]. apply andb_true_iff in F as [_ F]. rewrite H in F. cbn [implb] in F.
  apply andb_true_iff in F as [F1 F2]. apply negb_true_iff in F2. split; assumption.
Qed.

Lemma before_colon_split v p : before_colon v = Some p -> exists t, v = p ++ 58 :: t /\ forallb (fun c => negb (c =? 58)) p = true.
Proof.
  revert p; induction v as [|c r IH]; intro p; cbn [before_colon]; [discriminate|].
  destruct (c =? 58) eqn:E.
  - intro H. inversion H; subst. apply N.eqb_eq in E. subst. exists r. split; reflexivity.
  - destruct (before_colon r) as [q|]; [|discriminate]. intro H. inversion H; subst.
    destruct (IH q eq_refl) as [t [Ht Hq]]. exists t. split; [cbn [app]; rewrite <- Ht; reflexivity|].
    cbn [forallb]. rewrite E. exact Hq.
Qed.

Lemma find_colon_app a b : forallb (fun c => negb (c =? 58)) a = true -> find_colon (a ++ 58 :: b) = Some (length a).
Proof.
  unfold find_colon.
  assert (G : forall a i, forallb (fun c => negb (c =? 58)) a = true ->
              (fix go (s : str) (i : nat) : option nat :=
                 match s with [] => None | c :: r => if c =? 58 then Some i else go r (S i) end) (a ++ 58 :: b) i
              = Some (i + length a)%nat).
  { clear a. induction a as [|x a IH]; intros i H.
    - cbn [app length]. replace (58 =? 58) with true by reflexivity. f_equal. lia.
    - cbn [forallb] in H. apply andb_true_iff in H as [Hx Ha]. apply negb_true_iff in Hx.
      cbn [app]. rewrite Hx. rewrite IH by exact Ha. f_equal. cbn [length]. lia. }
  intro H. rewrite G by exact H. reflexivity.
Qed.

Lemma py_lower_ascii r : forallb (fun c => c <? 128) r = true -> py_lower r = lower_str r.
Proof.
  induction r as [|c r IH]; [reflexivity|]. cbn [forallb]. intro H. apply andb_true_iff in H as [Hc Hr].
  unfold py_lower, lower_str in *. cbn [flat_map map]. unfold py_lower_char at 1. rewrite Hc. cbn [app].
  f_equal. apply IH. exact Hr.
Qed.

Lemma py_lower_app a b : py_lower (a ++ b) = py_lower a ++ py_lower b.
Proof. unfold py_lower. apply flat_map_app. Qed.

Lemma filter_all {T} (f : T -> bool) l : forallb f l = true -> filter f l = l.
Proof. induction l as [|x l IH]; [reflexivity|]. cbn. intro H. apply andb_true_iff in H as [Hx Hl]. rewrite Hx, IH; auto. Qed.
Lemma filter_none {T} (f : T -> bool) l : forallb (fun x => negb (f x)) l = true -> filter f l = [].
Proof. induction l as [|x l IH]; [reflexivity|]. cbn. intro H. apply andb_true_iff in H as [Hx Hl].
  apply negb_true_iff in Hx. rewrite Hx. auto. Qed.

Lemma forallb_impl {T} (f g : T -> bool) l : (forall x, f x = true -> g x = true) -> forallb f l = true -> forallb g l = true.
Proof. intros I H. rewrite forallb_forall in *. auto. Qed.

Lemma forallb_map {T U} (g : T -> U) (f : U -> bool) l : forallb f (map g l) = forallb (fun x => f (g x)) l.
Proof. induction l as [|x l IH]; [reflexivity|]. cbn. rewrite IH. reflexivity. Qed.

(* THE safety theorem: if the sanitizer keeps a URI-valued attribute value v, then either a browser sees no
   scheme in v, or the scheme it sees (ASCII lower-cased) is one of the allowed protocols -- for EVERY value
   and EVERY allow-list *)
Theorem uri_scheme_safe (L : lists) (v : str) :
  uri_kept L v = true ->
  match browser_scheme v with None => True | Some s => mem_str s L.(l_protocols) = true end.
Proof.
  intro Hk. unfold browser_scheme.
  destruct (before_colon v) as [p|] eqn:Ebc; [|exact I].
  destruct (before_colon_split v p Ebc) as [t [Hv Hp58]].
  set (p' := drop_while c0_or_space p).
  set (r := filter (fun c => negb (tab_or_newline c)) p').
  destruct r as [|c0 r0] eqn:Er; [exact I|].
  destruct (is_alpha c0 && forallb scheme_char (c0 :: r0)) eqn:Eok; [|exact I].
  apply andb_true_iff in Eok as [Halpha Hsch]. rewrite <- Er in Hsch.
  (* characters of p: the leading ones are C0/space, the others tab/newline or scheme characters *)
  assert (Hlead : forallb c0_or_space (take_while c0_or_space p) = true) by apply take_while_all.
  assert (Hp' : forall c, In c p' -> tab_or_newline c = true \/ scheme_char c = true).
  { intros c Hc. destruct (tab_or_newline c) eqn:Et; [left; reflexivity | right].
    rewrite forallb_forall in Hsch. apply Hsch. unfold r. apply filter_In. split; [exact Hc | rewrite Et; reflexivity]. }
  assert (Htn : forall c, tab_or_newline c = true -> c0_or_space c = true)
    by (intros c H; unfold tab_or_newline, c0_or_space in *; lia).
  assert (Hsplit : p = take_while c0_or_space p ++ p') by (symmetry; apply take_drop_while).
  (* 1. unescape leaves the prefix up to the colon alone *)
  assert (Hamp : forallb (fun c => negb (c =? 38)) (p ++ [58]) = true).
  { rewrite forallb_app. apply andb_true_iff. split; [|reflexivity]. rewrite Hsplit, forallb_app. apply andb_true_iff. split.
    - eapply forallb_impl; [|exact Hlead]. intros c Hc. destruct (c0_facts c Hc) as [_ E]. rewrite E. reflexivity.
    - apply forallb_forall. intros c Hc. destruct (Hp' c Hc) as [Ht|Hs].
      + destruct (c0_facts c (Htn c Ht)) as [_ E]. rewrite E. reflexivity.
      + destruct (scheme_char_facts c Hs) as [_ [E _]]. rewrite E. reflexivity. }
  assert (Hun : unescape v = p ++ 58 :: unescape t).
  { rewrite Hv. change (p ++ 58 :: t) with (p ++ [58] ++ t). rewrite app_assoc.
    rewrite (unescape_prefix (p ++ [58]) t Hamp). rewrite <- app_assoc. reflexivity. }
  (* 2. stripping removes the C0/space/tab/newline characters and keeps the scheme characters and the colon *)
  set (keep := fun c => negb (in_rng uri_strip_class c)).
  assert (Hkeep_p : filter keep p = r).
  { rewrite Hsplit, filter_app. rewrite (filter_none keep (take_while c0_or_space p)).
    - cbn [app]. unfold r. clear -Hp' Htn. induction p' as [|c q IH]; [reflexivity|].
      cbn [filter]. assert (Hq : forall c, In c q -> tab_or_newline c = true \/ scheme_char c = true)
        by (intros x Hx; apply Hp'; right; exact Hx).
      destruct (Hp' c (or_introl eq_refl)) as [Ht|Hs].
      + unfold keep at 1. destruct (c0_facts c (Htn c Ht)) as [E _]. rewrite E, Ht. cbn [negb]. apply IH. exact Hq.
      + unfold keep at 1. destruct (scheme_char_facts c Hs) as [E _]. rewrite E. cbn [negb].
        assert (Et : tab_or_newline c = false).
        { destruct (tab_or_newline c) eqn:Et; [|reflexivity]. destruct (c0_facts c (Htn c Et)) as [E2 _]. congruence. }
        rewrite Et. cbn [negb]. f_equal. apply IH. exact Hq.
    - eapply forallb_impl; [|exact Hlead]. intros c Hc. unfold keep. destruct (c0_facts c Hc) as [E _]. rewrite E. reflexivity. }
  assert (Hstripped : filter keep (unescape v) = r ++ 58 :: filter keep (unescape t)).
  { rewrite Hun, filter_app, Hkeep_p. cbn [filter]. replace (keep 58) with true by (vm_compute; reflexivity). reflexivity. }
  (* 3. lower-casing and removal of U+FFFD *)
  assert (Hascii : forallb (fun c => c <? 128) r = true).
  { eapply forallb_impl; [|exact Hsch]. intros c Hc. destruct (scheme_char_facts c Hc) as [_ [_ [_ [_ [_ [_ [E _]]]]]]]. lia. }
  set (Z := filter (fun c => negb (c =? 65533)) (py_lower (filter keep (unescape t)))).
  assert (Hval : filter (fun c => negb (c =? 65533)) (py_lower (filter keep (unescape v))) = lower_str r ++ 58 :: Z).
  { rewrite Hstripped. change (r ++ 58 :: filter keep (unescape t)) with (r ++ [58] ++ filter keep (unescape t)).
    rewrite !py_lower_app, (py_lower_ascii r Hascii), !filter_app.
    rewrite (filter_all _ (lower_str r)).
    - reflexivity.
    - unfold lower_str. rewrite forallb_map. eapply forallb_impl; [|exact Hsch]. intros c Hc.
      destruct (scheme_char_facts c Hc) as [_ [_ [_ [_ [_ [_ [E _]]]]]]].
      apply negb_true_iff. apply N.eqb_neq. unfold ascii_lower. destruct (is_upper c); lia. }
  (* 4. urlsplit finds exactly this scheme *)
  unfold uri_kept in Hk. fold keep in Hk. rewrite Hval in Hk.
  assert (Hscheme : url_scheme (lower_str r ++ 58 :: Z) =
                    (Some (lower_str r), skipn (S (length (lower_str r))) (filter (fun c => negb (mem_N c url_remove_chars)) (lower_str r ++ 58 :: Z)))).
  { unfold url_scheme.
    assert (Hr_ne : lower_str r = ascii_lower c0 :: lower_str r0) by (rewrite Er; reflexivity).
    assert (Hc0 : scheme_char c0 = true) by (rewrite Er in Hsch; cbn [forallb] in Hsch; apply andb_true_iff in Hsch as [H _]; exact H).
    destruct (scheme_char_facts c0 Hc0) as [_ [_ [_ [Hl0 [_ [_ [Hlt0 _]]]]]]].
    assert (Hdw : drop_while (fun c => mem_N c url_lstrip_chars) (lower_str r ++ 58 :: Z) = lower_str r ++ 58 :: Z).
    { rewrite Hr_ne. cbn [app drop_while]. rewrite Hl0. reflexivity. }
    rewrite Hdw.
    assert (Hfl : filter (fun c => negb (mem_N c url_remove_chars)) (lower_str r ++ 58 :: Z) =
                  lower_str r ++ 58 :: filter (fun c => negb (mem_N c url_remove_chars)) Z).
    { rewrite filter_app. rewrite (filter_all _ (lower_str r)).
      - cbn [filter]. replace (negb (mem_N 58 url_remove_chars)) with true by (vm_compute; reflexivity). reflexivity.
      - unfold lower_str. rewrite forallb_map. eapply forallb_impl; [|exact Hsch]. intros c Hc.
        destruct (scheme_char_facts c Hc) as [_ [_ [_ [_ [E _]]]]]. rewrite E. reflexivity. }
    rewrite Hfl.
    assert (Hno58 : forallb (fun c => negb (c =? 58)) (lower_str r) = true).
    { unfold lower_str. rewrite forallb_map. eapply forallb_impl; [|exact Hsch]. intros c Hc.
      destruct (scheme_char_facts c Hc) as [_ [_ [_ [_ [_ [E _]]]]]]. rewrite E. reflexivity. }
    rewrite (find_colon_app _ _ Hno58).
    assert (Hlen : length (lower_str r) = S (length (lower_str r0))) by (rewrite Hr_ne; reflexivity).
    rewrite Hlen. rewrite Hr_ne at 1. cbn [app].
    assert (Hfirst : forall W, firstn (S (length (lower_str r0))) (lower_str r ++ 58 :: W) = lower_str r).
    { intro W. rewrite <- Hlen. rewrite firstn_app, Nat.sub_diag, firstn_all. cbn [firstn]. apply app_nil_r. }
    rewrite !Hfirst.
    assert (Hal : (ascii_lower c0 <? 128) && is_alpha (ascii_lower c0) = true).
    { apply andb_true_iff. split.
      - unfold ascii_lower. destruct (is_upper c0) eqn:U; [unfold is_upper in U; lia | lia].
      - pose proof (all_below_spec _ _ ascii_sweep c0 Hlt0) as F. unfold ascii_facts in F.
        apply andb_true_iff in F as [_ F]. rewrite Halpha in F. exact F. }
    rewrite Hal. cbn [andb].
    assert (Hall : forallb (fun c => mem_N c scheme_chars) (lower_str r) = true).
    { unfold lower_str. rewrite forallb_map. eapply forallb_impl; [|exact Hsch]. intros c Hc.
      destruct (scheme_char_facts c Hc) as [_ [_ [E _]]]. exact E. }
    rewrite Hall.
    assert (Hidem : lower_str (lower_str r) = lower_str r).
    { unfold lower_str. rewrite map_map. apply map_ext_in. intros c Hc. rewrite forallb_forall in Hsch.
      destruct (scheme_char_facts c (Hsch c Hc)) as [_ [_ [_ [_ [_ [_ [_ E]]]]]]]. exact E. }
    rewrite Hidem. reflexivity. }
  rewrite Hscheme in Hk. cbn [lower_str] in *.
  destruct (lower_str r) as [|l0 lr] eqn:El; [rewrite Er in El; discriminate|].
  destruct (negb (mem_str (l0 :: lr) (l_protocols L))) eqn:Em; [discriminate|].
  apply negb_false_iff in Em. rewrite Er in El. rewrite <- El in Em. exact Em.
Qed.

(* a kept data: URI has an allowed content type (as the sanitizer's own parse sees it) *)
Lemma data_content_type_allowed (L : lists) (v : str) :
  uri_kept L v = true ->
  let val := filter (fun c => negb (c =? 65533)) (py_lower (filter (fun c => negb (in_rng uri_strip_class c)) (unescape v))) in
  forall rest, url_scheme val = (Some [100;97;116;97], rest) ->
  exists ct, data_content_type (url_path rest) = Some ct /\ mem_str ct L.(l_content_types) = true.
Proof.
  intros Hk val rest Hs. unfold uri_kept in Hk. fold val in Hk. rewrite Hs in Hk.
  destruct (negb (mem_str [100;97;116;97] (l_protocols L))); [discriminate|].
  replace (str_eqb [100;97;116;97] [100;97;116;97]) with true in Hk by reflexivity.
  destruct (data_content_type (url_path rest)) as [ct|]; [|discriminate]. exists ct. split; [reflexivity | exact Hk].
Qed.

(* the default allow-list contains no element whose bare name makes the serializer write text raw
   (constants.rcdataElements: script, style, xmp, iframe, noembed, noframes, noscript) nor plaintext -- in any
   namespace, because the serializer keys on the bare name (used by C10) *)
Definition rawtext_names : list str :=
  rcdataElements ++ [[112;108;97;105;110;116;101;120;116]].
Lemma default_lists_have_no_rawtext :
  forallb (fun k => negb (mem_str (snd k) rawtext_names)) allowed_elements = true.
Proof. vm_compute. reflexivity. Qed.

(* event-handler attributes and style-bearing URL attributes: nothing starting with "on" is allowed by default *)
Lemma default_no_event_handlers :
  forallb (fun k => negb (starts_with [111;110] (snd k))) allowed_attributes = true.
Proof. vm_compute. reflexivity. Qed.
