(* C02sim_h -- per-state simulation lemmas (M_tok state method vs S_tok), see Proofs/C02sim.v and C02simtac.v.
   Each lemma:  R m s -> st m = X -> wk m = true -> plain m = true -> simok s (step_X m). *)
From Coq Require Import NArith List Bool Arith Lia ZifyBool ZifyN.
From Verif Require Import Sx Str.
From Verif.Gen Require Import Entities Tokenizer.
From Verif.Model Require Import CharRef TokBase TokHand C02.
From Verif.Spec Require Import CharRef TokSpec.
From Verif.Proofs Require Import C02a C02dict C08 C02sim C02simtac.
Import ListNotations.
Local Open Scope N_scope.

Lemma sim_afterDoctypeSystemKeywordState : forall m s, R m s -> st m = afterDoctypeSystemKeywordState -> wk m = true -> plain m = true -> simok s (step_afterDoctypeSystemKeywordState m).
Proof. sim_state step_afterDoctypeSystemKeywordState. Qed.

Lemma sim_beforeDoctypeSystemIdentifierState : forall m s, R m s -> st m = beforeDoctypeSystemIdentifierState -> wk m = true -> plain m = true -> simok s (step_beforeDoctypeSystemIdentifierState m).
Proof. sim_state step_beforeDoctypeSystemIdentifierState. Qed.

Lemma sim_characterReferenceInRcdata : forall m s, R m s -> st m = characterReferenceInRcdata -> wk m = true -> plain m = true -> simok s (step_characterReferenceInRcdata m).
Proof. sim_state step_characterReferenceInRcdata. Qed.

Lemma sim_commentEndState : forall m s, R m s -> st m = commentEndState -> wk m = true -> plain m = true -> simok s (step_commentEndState m).
Proof. sim_state step_commentEndState. Qed.

Lemma sim_doctypePublicIdentifierSingleQuotedState : forall m s, R m s -> st m = doctypePublicIdentifierSingleQuotedState -> wk m = true -> plain m = true -> simok s (step_doctypePublicIdentifierSingleQuotedState m).
Proof. sim_state step_doctypePublicIdentifierSingleQuotedState. Qed.

Lemma sim_scriptDataDoubleEscapedDashDashState : forall m s, R m s -> st m = scriptDataDoubleEscapedDashDashState -> wk m = true -> plain m = true -> simok s (step_scriptDataDoubleEscapedDashDashState m).
Proof. sim_state step_scriptDataDoubleEscapedDashDashState. Qed.

Lemma sim_scriptDataDoubleEscapedDashState : forall m s, R m s -> st m = scriptDataDoubleEscapedDashState -> wk m = true -> plain m = true -> simok s (step_scriptDataDoubleEscapedDashState m).
Proof. sim_state step_scriptDataDoubleEscapedDashState. Qed.

