From Coq Require Import NArith List Bool Lia.
From Verif Require Import Sx Str Tok DT.
Import ListNotations.
Local Open Scope N_scope.

Section Abs.
Variable K : list str.
Hypothesis HK : fresh_ok K = true.

Lemma K_nil : mem_str [] K = true.
Proof. unfold fresh_ok in HK. repeat (apply andb_true_iff in HK as [HK ?]). exact HK. Qed.
Lemma K_f1 : mem_str f1 K = false.
Proof. unfold fresh_ok in HK. repeat (apply andb_true_iff in HK as [HK ?]).
  repeat match goal with H : negb _ = true |- _ => apply negb_true_iff in H end. assumption. Qed.
Lemma K_f2 : mem_str f2 K = false.
Proof. unfold fresh_ok in HK. repeat (apply andb_true_iff in HK as [HK ?]).
  repeat match goal with H : negb _ = true |- _ => apply negb_true_iff in H end. assumption. Qed.
Lemma K_f3 : mem_str f3 K = false.
Proof. unfold fresh_ok in HK. repeat (apply andb_true_iff in HK as [HK ?]).
  repeat match goal with H : negb _ = true |- _ => apply negb_true_iff in H end. assumption. Qed.

(* an abstraction x' of x: identical when x is a literal, outside the literals otherwise *)
Definition absrel (x x' : str) : Prop :=
  (mem_str x K = true -> x' = x) /\ (mem_str x K = false -> mem_str x' K = false).

Lemma absrel_eq_lit x x' lit : absrel x x' -> mem_str lit K = true -> str_eqb x lit = str_eqb x' lit.
Proof.
  intros [H1 H2] Hl. destruct (mem_str x K) eqn:E.
  - rewrite (H1 eq_refl). reflexivity.
  - specialize (H2 eq_refl).
    assert (str_eqb x lit = false) as ->.
    { apply str_eqb_neq. intro; subst. congruence. }
    symmetry. apply str_eqb_neq. intro; subst. congruence.
Qed.

Lemma absrel_mem x x' lits :
  absrel x x' -> forallb (fun l => mem_str l K) lits = true -> mem_str x lits = mem_str x' lits.
Proof.
  intros Ha. induction lits as [|l r IH]; cbn [forallb]; intro H; [reflexivity|].
  apply andb_true_iff in H as [Hl Hr]. unfold mem_str in *. cbn [existsb].
  rewrite (absrel_eq_lit _ _ _ Ha Hl), (IH Hr). reflexivity.
Qed.

Lemma absrel_tag tag : absrel tag (abs_tag K tag).
Proof. unfold absrel, abs_tag. destruct (mem_str tag K); split; try congruence. intros _. apply K_f1. Qed.

Lemma absrel_name f tag x : mem_str f K = false -> absrel x (abs_name K f tag x).
Proof.
  intro Hf. unfold absrel, abs_name. destruct (mem_str x K); split; try congruence.
  intros _. destruct (str_eqb x tag); [apply K_f1 | exact Hf].
Qed.

Lemma absrel_nil : absrel [] [].
Proof. split; auto. Qed.

Lemma abs_eq_tag f tag x :
  mem_str f K = false -> f <> f1 ->
  str_eqb x tag = str_eqb (abs_name K f tag x) (abs_tag K tag).
Proof.
  intros Hf Hne. unfold abs_name, abs_tag.
  destruct (mem_str x K) eqn:Ex, (mem_str tag K) eqn:Et; try reflexivity.
  - assert (str_eqb x tag = false) as -> by (apply str_eqb_neq; intro; subst; congruence).
    symmetry. apply str_eqb_neq. intro; subst. pose proof K_f1. congruence.
  - destruct (str_eqb x tag) eqn:E.
    + apply str_eqb_eq in E. subst. congruence.
    + symmetry. apply str_eqb_neq. intro; subst. congruence.
  - destruct (str_eqb x tag) eqn:E.
    + symmetry. apply str_eqb_refl.
    + symmetry. apply str_eqb_neq. exact Hne.
Qed.

Lemma nil_eq_tag tag : str_eqb [] tag = str_eqb [] (abs_tag K tag).
Proof.
  unfold abs_tag. destruct (mem_str tag K) eqn:E; [reflexivity|].
  assert (str_eqb [] tag = false) as ->.
  { apply str_eqb_neq. intro; subst. pose proof K_nil. congruence. }
  reflexivity.
Qed.

Definition fs (s : subj) : str := match s with SPrev => f3 | SNext => f2 end.
Definition av (s : subj) (tag : str) (v : view) : view := abs_view K (fs s) tag v.

Lemma fs_fresh s : mem_str (fs s) K = false.
Proof. destruct s; [apply K_f3 | apply K_f2]. Qed.
Lemma fs_ne s : fs s <> f1.
Proof. destruct s; discriminate. Qed.

Lemma pick_abs s tag pv nv :
  pick s (av SPrev tag pv) (av SNext tag nv) = av s tag (pick s pv nv).
Proof. destruct s; reflexivity. Qed.

Lemma vname_absrel s tag v : absrel (vname v) (vname (av s tag v)).
Proof.
  destruct v as [[k x]|]; cbn; [apply absrel_name, fs_fresh | apply absrel_nil].
Qed.

Lemma vkind_abs s tag v : vkind (av s tag v) = vkind v.
Proof. destruct v as [[k x]|]; reflexivity. Qed.

Lemma ceval_abs c tag pv nv :
  cnosub c = true -> forallb (fun l => mem_str l K) (clits c) = true ->
  ceval c tag pv nv = ceval c (abs_tag K tag) (av SPrev tag pv) (av SNext tag nv).
Proof.
  induction c; cbn [cnosub clits ceval]; intros Hs Hl; try discriminate; rewrite ?pick_abs.
  - cbn in Hl. rewrite andb_true_r in Hl. apply absrel_eq_lit; [apply absrel_tag | exact Hl].
  - apply absrel_mem; [apply absrel_tag | exact Hl].
  - cbn in Hl. rewrite andb_true_r in Hl. apply absrel_eq_lit; [apply vname_absrel | exact Hl].
  - apply absrel_mem; [apply vname_absrel | exact Hl].
  - destruct (pick s pv nv) as [[k x]|]; cbn [av abs_view vname].
    + apply abs_eq_tag; [apply fs_fresh | apply fs_ne].
    + apply nil_eq_tag.
  - rewrite vkind_abs. reflexivity.
  - destruct (pick s pv nv) as [[k x]|]; reflexivity.
  - destruct (pick s pv nv) as [[k x]|]; reflexivity.
  - rewrite <- IHc; auto.
  - apply andb_true_iff in Hs as [Hs1 Hs2]. rewrite forallb_app in Hl. apply andb_true_iff in Hl as [Hl1 Hl2].
    rewrite <- IHc1, <- IHc2; auto.
  - apply andb_true_iff in Hs as [Hs1 Hs2]. rewrite forallb_app in Hl. apply andb_true_iff in Hl as [Hl1 Hl2].
    rewrite <- IHc1, <- IHc2; auto.
  - reflexivity.
Qed.

Lemma peval_abs p tag pv nv :
  pnosub p = true -> forallb (fun l => mem_str l K) (plits p) = true ->
  peval p tag pv nv = peval p (abs_tag K tag) (av SPrev tag pv) (av SNext tag nv).
Proof.
  induction p; cbn [pnosub plits peval]; intros Hs Hl.
  - apply ceval_abs; assumption.
  - apply andb_true_iff in Hs as [Hs Hs3]. apply andb_true_iff in Hs as [Hs1 Hs2].
    rewrite !forallb_app in Hl. apply andb_true_iff in Hl as [Hl1 Hl]. apply andb_true_iff in Hl as [Hl2 Hl3].
    rewrite <- ceval_abs, <- IHp1, <- IHp2; auto.
Qed.

(* the abstract arguments lie in the finite domains *)
Lemma abs_tag_dom tag : In (abs_tag K tag) (dom_tag K).
Proof.
  unfold abs_tag, dom_tag. destruct (mem_str tag K) eqn:E; [right; apply mem_str_In; exact E | left; reflexivity].
Qed.

Lemma av_dom s tag v : vkind_ok v = true -> In (av s tag v) (dom_views K (fs s)).
Proof.
  unfold dom_views. destruct v as [[k x]|]; cbn [av abs_view vkind_ok]; intro Hk; [|left; reflexivity].
  right. apply in_flat_map. exists k. split.
  - apply existsb_exists in Hk as [k' [Hin E]]. apply N.eqb_eq in E. subst. exact Hin.
  - apply (in_map (fun n => Some (k, n))). unfold abs_name. destruct (mem_str x K) eqn:E.
    + right. right. apply mem_str_In. exact E.
    + destruct (str_eqb x tag); [left; reflexivity | right; left; reflexivity].
Qed.

(* ---------- lifting finite checks ---------- *)
Lemma check3_sound (P : str -> view -> view -> bool) :
  (forall tag pv nv, P tag pv nv = P (abs_tag K tag) (av SPrev tag pv) (av SNext tag nv)) ->
  check3 P K = true ->
  forall tag pv nv, vkind_ok pv = true -> vkind_ok nv = true -> P tag pv nv = true.
Proof.
  intros Hinv Hc tag pv nv Hp Hn. rewrite Hinv. unfold check3 in Hc.
  rewrite forallb_forall in Hc. specialize (Hc _ (abs_tag_dom tag)).
  rewrite forallb_forall in Hc. specialize (Hc _ (av_dom SPrev tag pv Hp)).
  rewrite forallb_forall in Hc. exact (Hc _ (av_dom SNext tag nv Hn)).
Qed.

Lemma check2_sound (P : str -> view -> bool) :
  (forall tag nv, P tag nv = P (abs_tag K tag) (av SNext tag nv)) ->
  check2 P K = true ->
  forall tag nv, vkind_ok nv = true -> P tag nv = true.
Proof.
  intros Hinv Hc tag nv Hn. rewrite Hinv. unfold check2 in Hc.
  rewrite forallb_forall in Hc. specialize (Hc _ (abs_tag_dom tag)).
  rewrite forallb_forall in Hc. exact (Hc _ (av_dom SNext tag nv Hn)).
Qed.

End Abs.

Lemma ceval_noprev c tag pv pv' nv : cnoprev c = true -> ceval c tag pv nv = ceval c tag pv' nv.
Proof.
  induction c; cbn [cnoprev ceval]; intro H; try reflexivity;
    try (destruct s; [discriminate | reflexivity]).
  - rewrite (IHc H). reflexivity.
  - apply andb_true_iff in H as [H1 H2]. rewrite (IHc1 H1), (IHc2 H2). reflexivity.
  - apply andb_true_iff in H as [H1 H2]. rewrite (IHc1 H1), (IHc2 H2). reflexivity.
Qed.

Lemma peval_noprev p tag pv pv' nv : pnoprev p = true -> peval p tag pv nv = peval p tag pv' nv.
Proof.
  induction p; cbn [pnoprev peval]; intro H.
  - apply ceval_noprev. exact H.
  - apply andb_true_iff in H as [H H3]. apply andb_true_iff in H as [H1 H2].
    rewrite (ceval_noprev c tag pv pv' nv H1), (IHp1 H2), (IHp2 H3). reflexivity.
Qed.

Lemma view_of_kind_ok o : vkind_ok (view_of o) = true.
Proof. destruct o as [t|]; [destruct t; reflexivity | reflexivity]. Qed.

(* ---------- packaged decision procedures: "F implies G for all names and tokens" ---------- *)
Definition imp (F G : prog) (tag : str) (pv nv : view) : bool :=
  implb (peval F tag pv nv) (peval G tag pv nv).

Definition lits_of (F G : prog) : list str := [] :: plits F ++ plits G.

Definition ok3 (F G : prog) : bool :=
  let K := lits_of F G in
  fresh_ok K && pnosub F && pnosub G && check3 (imp F G) K.

Definition ok2 (F G : prog) : bool :=
  let K := lits_of F G in
  fresh_ok K && pnosub F && pnosub G && pnoprev F && pnoprev G &&
  check2 (fun tag nv => imp F G tag None nv) K.

Lemma lits_incl_l F G : forallb (fun l => mem_str l (lits_of F G)) (plits F) = true.
Proof.
  apply forallb_forall. intros x Hx. apply mem_str_In. right. apply in_or_app. left. exact Hx.
Qed.
Lemma lits_incl_r F G : forallb (fun l => mem_str l (lits_of F G)) (plits G) = true.
Proof.
  apply forallb_forall. intros x Hx. apply mem_str_In. right. apply in_or_app. right. exact Hx.
Qed.

Theorem implies3 F G :
  ok3 F G = true ->
  forall tag pv nv, vkind_ok pv = true -> vkind_ok nv = true ->
    peval F tag pv nv = true -> peval G tag pv nv = true.
Proof.
  unfold ok3. intro H.
  apply andb_true_iff in H as [H Hc]. apply andb_true_iff in H as [H HG]. apply andb_true_iff in H as [HK HF].
  intros tag pv nv Hp Hn HFt.
  pose proof (check3_sound (lits_of F G) (imp F G)) as S.
  assert (E : imp F G tag pv nv = true).
  { apply S; auto. intros t p n. unfold imp.
    rewrite <- (peval_abs _ HK F t p n HF (lits_incl_l F G)).
    rewrite <- (peval_abs _ HK G t p n HG (lits_incl_r F G)). reflexivity. }
  unfold imp in E. rewrite HFt in E. exact E.
Qed.

Theorem implies2 F G :
  ok2 F G = true ->
  forall tag pv nv, vkind_ok nv = true ->
    peval F tag pv nv = true -> peval G tag pv nv = true.
Proof.
  unfold ok2. intro H.
  apply andb_true_iff in H as [H Hc]. apply andb_true_iff in H as [H HGp]. apply andb_true_iff in H as [H HFp].
  apply andb_true_iff in H as [H HG]. apply andb_true_iff in H as [HK HF].
  intros tag pv nv Hn HFt.
  rewrite (peval_noprev F tag pv None nv HFp) in HFt. rewrite (peval_noprev G tag pv None nv HGp).
  pose proof (check2_sound (lits_of F G) (fun t n => imp F G t None n)) as S.
  assert (E : imp F G tag None nv = true).
  { apply S; auto. intros t n. unfold imp.
    rewrite (peval_abs _ HK F t None n HF (lits_incl_l F G)).
    rewrite (peval_abs _ HK G t None n HG (lits_incl_r F G)). reflexivity. }
  unfold imp in E. rewrite HFt in E. exact E.
Qed.
