(* C14num -- the numeric reference the serializer writes for a character its output encoding cannot express and that
   has no named entity, "&#x" + hex(c)[2:] + ";" (serializer.py: htmlentityreplace_errors), decodes to exactly that
   character whatever text follows -- for every code point outside the replacement table and the surrogates. *)
From Coq Require Import NArith ZArith List Bool Arith Lia ZifyBool ZifyN.
From Verif Require Import Sx Str Tok.
From Verif.Gen Require Import Entities.
From Verif.Model Require Import CharRef C14.
From Verif.Proofs Require Import C14.
Import ListNotations.
Local Open Scope N_scope.
Ltac Zify.zify_post_hook ::= Z.to_euclidean_division_equations.

(* ---- digits ---- *)
Lemma digit_val_hex d : d < 16 -> digit_val (hex_digit_l d) = d /\ is_hex (hex_digit_l d) = true /\
  ((hex_digit_l d =? 48) = (d =? 0)).
Proof.
  intro H.
  assert (Hd : d = 0 \/ d = 1 \/ d = 2 \/ d = 3 \/ d = 4 \/ d = 5 \/ d = 6 \/ d = 7 \/ d = 8 \/ d = 9 \/ d = 10 \/
               d = 11 \/ d = 12 \/ d = 13 \/ d = 14 \/ d = 15) by lia.
  repeat (destruct Hd as [->|Hd]; [repeat split; reflexivity|]). subst d. repeat split; reflexivity.
Qed.

Lemma value_cons x l : value 16 (x :: l) = digit_val x * 16 ^ N.of_nat (length l) + value 16 l.
Proof.
  unfold value. cbn [fold_left]. rewrite N.mul_0_l, N.add_0_l.
  generalize (digit_val x) as a. induction l as [|y l IH] using rev_ind; intro a.
  - cbn. lia.
  - rewrite !fold_left_app. cbn [fold_left]. rewrite IH, app_length. cbn [length].
    replace (N.of_nat (length l + 1)) with (N.succ (N.of_nat (length l))) by lia. rewrite N.pow_succ_r'.
    specialize (IH 0). rewrite N.mul_0_l, N.add_0_l in IH. lia.
Qed.

(* ---- the digit string ---- *)
Lemma hexl_fuel_spec : forall f c acc, c < 16 ^ N.of_nat f -> (0 < f)%nat -> forallb is_hex acc = true ->
  let r := hexl_fuel f c acc in
  value 16 r = c * 16 ^ N.of_nat (length acc) + value 16 acc /\
  forallb is_hex r = true /\
  (length r <= f + length acc)%nat /\
  (0 < c -> match r with d :: _ => (d =? 48) = false | [] => False end).
Proof.
  induction f as [|f IH]; intros c acc Hc Hf Ha; [lia|]. cbn [hexl_fuel].
  assert (Hm : c mod 16 < 16) by (apply N.mod_lt; lia).
  destruct (digit_val_hex _ Hm) as [D1 [D2 D3]].
  destruct (c / 16 =? 0) eqn:E.
  - apply N.eqb_eq in E. cbn zeta. rewrite value_cons, D1. cbn [forallb length]. rewrite D2, Ha.
    assert (c mod 16 = c) by lia. split; [lia|]. split; [reflexivity|]. split; [lia|].
    intro Hp. rewrite D3. apply N.eqb_neq. lia.
  - apply N.eqb_neq in E. cbn zeta.
    assert (Hf' : (0 < f)%nat).
    { destruct f; [|lia]. cbn in Hc. lia. }
    assert (Hc' : c / 16 < 16 ^ N.of_nat f).
    { replace (N.of_nat (S f)) with (N.succ (N.of_nat f)) in Hc by lia. rewrite N.pow_succ_r' in Hc.
      apply N.div_lt_upper_bound; lia. }
    assert (Ha' : forallb is_hex (hex_digit_l (c mod 16) :: acc) = true) by (cbn [forallb]; rewrite D2, Ha; reflexivity).
    destruct (IH (c / 16) (hex_digit_l (c mod 16) :: acc) Hc' Hf' Ha') as [I1 [I2 [I3 I4]]].
    split.
    + rewrite I1, value_cons, D1. cbn [length]. replace (N.of_nat (S (length acc))) with (N.succ (N.of_nat (length acc))) by lia.
      rewrite N.pow_succ_r' by lia.
      transitivity ((16 * (c / 16) + c mod 16) * 16 ^ N.of_nat (length acc) + value 16 acc); [ring|].
      rewrite <- (N.div_mod c 16) by lia. reflexivity.
    + split; [exact I2|]. split; [cbn [length] in I3; lia|]. intros _. apply I4. lia.
Qed.

(* what follows "&": "#x", hex digits, ";" *)
Lemma take_hex_app ds rest : forallb is_hex ds = true ->
  take_while is_hex (ds ++ 59 :: rest) = ds /\ drop_while is_hex (ds ++ 59 :: rest) = 59 :: rest.
Proof.
  induction ds as [|d ds IH]; intro H; [split; reflexivity|].
  cbn [forallb] in H. apply andb_true_iff in H as [Hd H]. destruct (IH H) as [I1 I2].
  cbn [app take_while drop_while]. rewrite Hd, I1, I2. split; reflexivity.
Qed.

Theorem numeric_ref_decodes c rest : 0 < c -> c < 1114112 -> lookup_N replacementCharacters c = None ->
  (55296 <=? c) && (c <=? 57343) = false ->
  fst (fst (consume_entity None false (tl (numeric_ref c) ++ rest))) = [c] /\
  snd (consume_entity None false (tl (numeric_ref c) ++ rest)) = rest.
Proof.
  intros H0 Hc Hl Hs.
  destruct (hexl_fuel_spec 6 c [] ltac:(cbn; lia) ltac:(lia) eq_refl) as [S1 [S2 [S3 S4]]].
  assert (Hh : hexl c = hexl_fuel 6 c []).
  { unfold hexl. (* two more rounds of fuel change nothing: the loop has stopped *)
    assert (G : forall f g c acc, c < 16 ^ N.of_nat f -> (0 < f)%nat -> hexl_fuel (f + g) c acc = hexl_fuel f c acc).
    { induction f as [|f IHf]; intros g c0 acc Hc0 Hf0; [lia|]. cbn [hexl_fuel plus].
      destruct (c0 / 16 =? 0) eqn:E; [reflexivity|]. apply N.eqb_neq in E.
      apply IHf.
      - replace (N.of_nat (S f)) with (N.succ (N.of_nat f)) in Hc0 by lia. rewrite N.pow_succ_r' in Hc0.
        apply N.div_lt_upper_bound; lia.
      - destruct f; [|lia]. cbn in Hc0. lia. }
    apply (G 6%nat 2%nat); [cbn; lia|lia]. }
  cbn [length] in S1, S3. rewrite N.mul_1_r in S1. change (value 16 []) with 0 in S1. rewrite N.add_0_r in S1.
  specialize (S4 H0). set (ds := hexl_fuel 6 c []) in *.
  destruct ds as [|d ds'] eqn:Ed; [contradiction S4|].
  unfold numeric_ref. rewrite Hh. cbn [app tl]. rewrite <- app_assoc. cbn [app].
  pose proof S2 as S2'. cbn [forallb] in S2'. apply andb_true_iff in S2' as [Hd _].
  unfold consume_entity. replace (is_space 35 || (35 =? 60) || (35 =? 38) || false) with false by reflexivity.
  replace (35 =? 35) with true by reflexivity. replace ((120 =? 120) || (120 =? 88)) with true by reflexivity.
  cbn [tl]. rewrite Hd. unfold consume_number.
  destruct (take_hex_app (d :: ds') rest S2) as [T1 T2]. cbn [app] in T1, T2. rewrite T1, T2.
  cbn [drop_while]. rewrite S4.
  assert (Hlen : Nat.ltb 7 (length (d :: ds')) = false) by (apply Nat.ltb_ge; lia). rewrite Hlen, S1.
  unfold num_char. rewrite Hl, Hs. assert (H1 : (1114111 <? c) = false) by lia. rewrite H1. cbn [orb].
  split; reflexivity.
Qed.

(* the whole replacement: a named reference where _encode_entity_map has the code point, the numeric one otherwise *)
Lemma with_semi_same k : with_semi' k = with_semi k.
Proof. reflexivity. Qed.
Theorem encode_ref_decodes c rest : 0 < c -> c < 1114112 -> lookup_N replacementCharacters c = None ->
  (55296 <=? c) && (c <=? 57343) = false ->
  fst (fst (consume_entity None false (tl (encode_ref c) ++ rest))) = [c] /\
  snd (consume_entity None false (tl (encode_ref c) ++ rest)) = rest.
Proof.
  intros H0 Hc Hl Hs. unfold encode_ref. destruct (find (fun e => fst e =? c) encode_entity_map) as [e|] eqn:Ef.
  - apply find_some in Ef as [Hin He]. apply N.eqb_eq in He. cbn [tl]. rewrite with_semi_same.
    rewrite (encode_decode_named e rest Hin). cbn [fst snd]. rewrite He. split; reflexivity.
  - apply numeric_ref_decodes; assumption.
Qed.
