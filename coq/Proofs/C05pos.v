(* C05pos -- the (line, column) position the stream reports after k characters is a function of the first k
   newline-normalised characters alone: it does not depend on how the input was cut into reads / chunks. *)
From Coq Require Import NArith List Bool Arith Lia.
From Verif Require Import Sx Str Tok.
From Verif.Gen Require Import InputStream.
From Verif.Model Require Import C05.
From Verif.Proofs Require Import C05.
Import ListNotations.
Local Open Scope N_scope.

(* the reference: line = 1 + number of LF seen, column = number of characters since the last LF *)
Definition col (l : str) : nat := match after_last_nl l with Some k => k | None => length l end.
Definition pos_of (consumed : str) : nat * nat := (S (count_nl consumed), col consumed).

Lemma count_nl_app a b : count_nl (a ++ b) = (count_nl a + count_nl b)%nat.
Proof. induction a as [|c a IH]; [reflexivity|]. cbn [app count_nl]. rewrite IH. lia. Qed.
Lemma after_last_nl_app a b :
  after_last_nl (a ++ b) = match after_last_nl b with
                           | Some k => Some k
                           | None => option_map (fun k => (k + length b)%nat) (after_last_nl a)
                           end.
Proof.
  induction a as [|c a IH]; cbn [app after_last_nl].
  - destruct (after_last_nl b); reflexivity.
  - rewrite IH. destruct (after_last_nl b) as [k|]; [reflexivity|].
    destruct (after_last_nl a) as [k|]; cbn [option_map]; [reflexivity|].
    destruct (c =? 10); [|reflexivity]. cbn [option_map]. rewrite app_length. reflexivity.
Qed.
Lemma col_app a b : col (a ++ b) = match after_last_nl b with Some k => k | None => (col a + length b)%nat end.
Proof.
  unfold col. rewrite after_last_nl_app. destruct (after_last_nl b) as [k|]; [reflexivity|].
  destruct (after_last_nl a); cbn [option_map]; [reflexivity|]. apply app_length.
Qed.

Lemma position_at_spec s done off : pl s = count_nl done -> pc s = col done -> (off <= length (chunk s))%nat ->
  position_at s off = (count_nl (done ++ firstn off (chunk s)), col (done ++ firstn off (chunk s))).
Proof.
  intros Hl Hc Ho. unfold position_at. rewrite count_nl_app, col_app, Hl, Hc.
  destruct (after_last_nl (firstn off (chunk s))); [reflexivity|]. rewrite firstn_length_le by exact Ho. reflexivity.
Qed.

(* every refill starts counting where the previous chunk ended *)
Lemma read_chunk_pos : forall f s,
  (pl (fst (read_chunk f s)), pc (fst (read_chunk f s))) = position_at s (length (chunk s)).
Proof.
  induction f as [|f IH]; intro s; cbn [read_chunk]; destruct (position_at s (length (chunk s))) as [l c] eqn:Ep.
  - repeat (match goal with |- context [match ?x with _ => _ end] => destruct x end; cbn [fst pl pc]); reflexivity.
  - repeat (match goal with
            | |- context [read_chunk f ?s'] => fail 1
            | |- context [match ?x with _ => _ end] => destruct x
            end; cbn [fst pl pc]); try reflexivity.
    all: repeat (match goal with
                 | |- context [match ?x with _ => _ end] =>
                     lazymatch x with context [read_chunk] => fail | _ => destruct x end
                 end; cbn [fst pl pc]); try reflexivity.
    all: rewrite (IH _); unfold position_at; cbn [chunk firstn length after_last_nl count_nl pl pc]; f_equal; lia.
Qed.

(* the invariant: the position counters describe everything before the current chunk *)
Definition PInv (tot : str) (s : st) : Prop :=
  exists done, tot = done ++ chunk s ++ future s /\ pl s = count_nl done /\ pc s = col done /\
               (coff s <= length (chunk s))%nat.

Lemma PInv_position tot s : PInv tot s ->
  exists consumed, tot = consumed ++ remaining s /\ position s = pos_of consumed.
Proof.
  intros [done [Ht [Hl [Hc Ho]]]]. exists (done ++ firstn (coff s) (chunk s)). split.
  - rewrite Ht. unfold remaining, pending. rewrite <- app_assoc. f_equal.
    rewrite app_assoc, firstn_skipn. reflexivity.
  - unfold position. rewrite (position_at_spec s done (coff s) Hl Hc Ho). reflexivity.
Qed.

Lemma rc_PInv tot s : src_ok s -> PInv tot s -> (length (chunk s) <= coff s)%nat ->
  let '(s1, ok) := rc s in ok = true -> PInv tot s1.
Proof.
  intros Hs [done [Ht [Hl [Hc Ho]]]] Hfull. pose proof (rc_spec s Hs) as R. pose proof (read_chunk_pos 2 s) as P.
  unfold rc in *. destruct (read_chunk 2 s) as [s1 ok]. cbn [fst] in P. intro Hok. subst ok.
  destruct R as [_ [R2 [_ R4]]].
  rewrite (position_at_spec s done (length (chunk s)) Hl Hc (le_n _)), firstn_all in P. inversion P as [[P1 P2]].
  exists (done ++ chunk s). split; [rewrite Ht, <- R4, <- app_assoc; reflexivity|].
  split; [exact P1|]. split; [exact P2|]. rewrite R2. lia.
Qed.

Lemma char_PInv tot s : src_ok s -> PInv tot s ->
  match char s with
  | (s1, Some c) => PInv tot s1
  | (_, None) => True
  end.
Proof.
  intros Hs HP. unfold char. destruct (Nat.leb (length (chunk s)) (coff s)) eqn:E.
  - apply Nat.leb_le in E. pose proof (rc_PInv tot s Hs HP E) as R. destruct (rc s) as [s1 ok].
    destruct ok; [|exact I]. specialize (R eq_refl).
    destruct (nth_error (chunk s1) (coff s1)) as [c|] eqn:En; [|exact I].
    destruct R as [done [Ht [Hl [Hc Ho]]]]. exists done. cbn [chunk future buf src pl pc coff].
    split; [exact Ht|]. split; [exact Hl|]. split; [exact Hc|].
    assert (coff s1 < length (chunk s1))%nat by (apply nth_error_Some; rewrite En; discriminate). lia.
  - apply Nat.leb_gt in E. destruct (nth_error (chunk s) (coff s)) as [c|] eqn:En; [|exact I].
    destruct HP as [done [Ht [Hl [Hc Ho]]]]. exists done. cbn [chunk future buf src pl pc coff].
    split; [exact Ht|]. split; [exact Hl|]. split; [exact Hc|]. lia.
Qed.

(* k successful char() calls *)
Fixpoint iter_char (k : nat) (s : st) : option st :=
  match k with
  | O => Some s
  | S k' => match char s with (s1, Some _) => iter_char k' s1 | (_, None) => None end
  end.

Lemma iter_char_inv tot : forall k s s', src_ok s -> PInv tot s -> iter_char k s = Some s' ->
  src_ok s' /\ PInv tot s' /\ (length (remaining s) = k + length (remaining s'))%nat.
Proof.
  induction k as [|k IH]; intros s s' Hs HP H; cbn [iter_char] in H.
  - inversion H; subst. auto.
  - pose proof (char_spec s Hs) as C. pose proof (char_PInv tot s Hs HP) as P.
    destruct (char s) as [s1 [c|]]; [|discriminate]. destruct C as [C1 C2].
    destruct (IH s1 s' C1 P H) as [I1 [I2 I3]]. split; [exact I1|]. split; [exact I2|].
    rewrite C2. cbn [length]. lia.
Qed.

(* THE position theorem *)
Theorem position_segmentation_independent reads k s :
  Forall (fun d => d <> []) reads -> iter_char k (init reads) = Some s ->
  position s = pos_of (firstn k (norm (concat reads))).
Proof.
  intros Hr Hk. set (tot := norm (concat reads)).
  assert (HP0 : PInv tot (init reads)).
  { exists []. unfold init, future. cbn [chunk buf src bufl app pl pc coff count_nl col after_last_nl length].
    repeat split; lia. }
  destruct (iter_char_inv tot k (init reads) s Hr HP0 Hk) as [_ [HP Hlen]].
  destruct (PInv_position tot s HP) as [consumed [Ht Hpos]].
  assert (Hrem0 : remaining (init reads) = tot) by reflexivity. rewrite Hrem0 in Hlen.
  assert (Hc : length consumed = k).
  { apply (f_equal (@length N)) in Ht. rewrite app_length in Ht. lia. }
  rewrite Hpos. f_equal. rewrite Ht, <- Hc, firstn_app, firstn_all, Nat.sub_diag. cbn [firstn]. rewrite app_nil_r. reflexivity.
Qed.
