(* C08 -- lexical round trips: what the serializer writes for text and for quoted attribute values is read back
   by S_tok (the WHATWG tokenizer, Spec/TokSpec.v) as exactly that text / value, whatever follows. *)
From Coq Require Import NArith List Bool Arith Lia.
From Verif Require Import Sx Str Tok.
From Verif.Gen Require Import Entities.
From Verif.Model Require Import CharRef TokBase Ser.
From Verif.Spec Require Import CharRef TokSpec.
From Verif.Proofs Require Import C14.
Import ListNotations.
Local Open Scope N_scope.

(* ---------------- "&name;" is decoded by the specification's named-reference rule ---------------- *)
Lemma spec_named_terminal K rest inAttr :
  is_key entities K = true -> last K 0 = 59 -> K <> [] ->
  spec_named entities inAttr (K ++ rest) = (get entities K, [], rest).
Proof.
  intros Hk Hl Hne. unfold spec_named, spec_longest.
  assert (Hlp : lp_len entities (length (K ++ rest)) (K ++ rest) = Some K).
  { rewrite (lp_len_skip entities (K ++ rest) (length (K ++ rest)) (length K)).
    - assert (Hf : firstn (length K) (K ++ rest) = K).
      { rewrite firstn_app, Nat.sub_diag, firstn_all. cbn. apply app_nil_r. }
      destruct (length K) eqn:El; cbn [lp_len]; rewrite Hf, Hk; reflexivity.
    - rewrite app_length. lia.
    - intros i [Hi1 Hi2].
      destruct (is_key entities (firstn i (K ++ rest))) eqn:E; [exfalso|reflexivity].
      rewrite firstn_app, firstn_all2 in E by lia.
      destruct (firstn (i - length K) rest) as [|x t] eqn:Ef.
      { apply (f_equal (@length N)) in Ef. rewrite firstn_length in Ef. rewrite app_length in Hi2.
        cbn [length] in Ef. lia. }
      pose proof (no_extension entities entity_semi_last K x t Hl Hne) as Hno.
      assert (Hp : has_prefix entities (K ++ x :: t) = true).
      { apply (key_has_prefix entities (K ++ x :: t) _ E). apply starts_with_app. exists []. symmetry. apply app_nil_r. }
      congruence. }
  rewrite Hlp, Hl.
  replace (59 =? 59) with true by reflexivity. cbn [negb andb].
  rewrite skipn_app, skipn_all, Nat.sub_diag. reflexivity.
Qed.

Definition k_amp : str := [97;109;112;59].
Definition k_lt : str := [108;116;59].
Definition k_gt : str := [103;116;59].
Definition k_quot : str := [113;117;111;116;59].

Lemma charref_amp a rest : spec_charref a (k_amp ++ rest) = ([38], rest).
Proof.
  unfold spec_charref. cbn [k_amp app]. replace (is_alnum 97) with true by reflexivity.
  change (97 :: 109 :: 112 :: 59 :: rest) with (k_amp ++ rest).
  rewrite spec_named_terminal; [reflexivity| vm_compute; reflexivity | reflexivity | discriminate].
Qed.
Lemma charref_lt a rest : spec_charref a (k_lt ++ rest) = ([60], rest).
Proof.
  unfold spec_charref. cbn [k_lt app]. replace (is_alnum 108) with true by reflexivity.
  change (108 :: 116 :: 59 :: rest) with (k_lt ++ rest).
  rewrite spec_named_terminal; [reflexivity| vm_compute; reflexivity | reflexivity | discriminate].
Qed.
Lemma charref_gt a rest : spec_charref a (k_gt ++ rest) = ([62], rest).
Proof.
  unfold spec_charref. cbn [k_gt app]. replace (is_alnum 103) with true by reflexivity.
  change (103 :: 116 :: 59 :: rest) with (k_gt ++ rest).
  rewrite spec_named_terminal; [reflexivity| vm_compute; reflexivity | reflexivity | discriminate].
Qed.
Lemma charref_quot a rest : spec_charref a (k_quot ++ rest) = ([34], rest).
Proof.
  unfold spec_charref. cbn [k_quot app]. replace (is_alnum 113) with true by reflexivity.
  change (113 :: 117 :: 111 :: 116 :: 59 :: rest) with (k_quot ++ rest).
  rewrite spec_named_terminal; [reflexivity| vm_compute; reflexivity | reflexivity | discriminate].
Qed.
(* "&#39;" *)
Lemma charref_39 a rest : spec_charref a ([35;51;57;59] ++ rest) = ([39], rest).
Proof. reflexivity. Qed.

(* ---------------- escape as a single pass ---------------- *)
Definition esc1 (c : N) : str :=
  if c =? 38 then s_amp else if c =? 60 then s_lt else if c =? 62 then s_gt else [c].

Lemma flat_map_flat_map {A B C} (f : B -> list C) (g : A -> list B) (l : list A) :
  flat_map f (flat_map g l) = flat_map (fun x => flat_map f (g x)) l.
Proof. induction l as [|x l IH]; cbn [flat_map]; [reflexivity|]. rewrite flat_map_app, IH. reflexivity. Qed.

Lemma escape_single_pass s : escape s = flat_map esc1 s.
Proof.
  unfold escape, replace_char. rewrite !flat_map_flat_map. apply flat_map_ext. intro c. unfold esc1.
  destruct (N.eqb_spec c 38) as [->|H38]; [reflexivity|].
  cbn [flat_map app].
  destruct (N.eqb_spec c 62) as [->|H62]; [reflexivity|].
  cbn [flat_map app].
  destruct (N.eqb_spec c 60) as [->|H60]; reflexivity.
Qed.

(* ---------------- iterated specification steps ---------------- *)
Fixpoint sp_iter (j : nat) (k : tk) : option tk :=
  match j with
  | O => Some k
  | S j' => let '(k', c) := sp_step k in if c then sp_iter j' k' else None
  end.

Lemma sp_iter_app a : forall b k k', sp_iter a k = Some k' -> sp_iter (a + b) k = sp_iter b k'.
Proof.
  induction a as [|a IH]; intros b k k'; cbn [sp_iter Nat.add].
  - intro H. inversion H. reflexivity.
  - destruct (sp_step k) as [k1 c]. destruct c; [apply IH|discriminate].
Qed.

Definition singles (t : str) : list otok := map (fun c => OChars [c]) t.

Lemma data_step_amp i c tm o cd b :
  sp_step (mk_tk dataState (38 :: i) c tm o cd b) = (charref_text (mk_tk dataState i c tm o cd b), true).
Proof. reflexivity. Qed.
Lemma data_step_other x i c tm o cd b : (x =? 38) = false -> (x =? 60) = false ->
  sp_step (mk_tk dataState (x :: i) c tm o cd b) = (mk_tk dataState i c tm (OChars [x] :: o) cd b, true).
Proof.
  intros H1 H2. unfold sp_step. cbv [peek advance set_inp]. cbn [st inp hd_error tl cur tmp out cdata_ok bad].
  rewrite H1, H2. reflexivity.
Qed.
Lemma charref_text_is r x i c tm o cd b : spec_charref false i = ([x], r) ->
  charref_text (mk_tk dataState i c tm o cd b) = mk_tk dataState r c tm (OChars [x] :: o) cd b.
Proof. intro H. unfold charref_text. cbn [inp]. rewrite H. reflexivity. Qed.

(* TEXT: in the data state, the escaped form of ANY text t, followed by ANYTHING, is read back as exactly the
   characters of t, one character token each, and the tokenizer is again in the data state in front of the
   rest: no character of t can open a tag, a comment or a reference *)
Theorem text_roundtrip : forall t rest c tm o cd b,
  exists j, sp_iter j (mk_tk dataState (escape t ++ rest) c tm o cd b)
            = Some (mk_tk dataState rest c tm (rev (singles t) ++ o) cd b).
Proof.
  intros t rest c tm. rewrite escape_single_pass.
  induction t as [|x t IH]; intros o cd b.
  - exists 0%nat. reflexivity.
  - cbn [flat_map]. rewrite <- app_assoc.
    assert (Hs : sp_step (mk_tk dataState (esc1 x ++ flat_map esc1 t ++ rest) c tm o cd b)
                 = (mk_tk dataState (flat_map esc1 t ++ rest) c tm (OChars [x] :: o) cd b, true)).
    { unfold esc1 at 1.
      destruct (N.eqb_spec x 38) as [->|H38].
      { change (s_amp ++ flat_map esc1 t ++ rest) with (38 :: k_amp ++ flat_map esc1 t ++ rest).
        rewrite data_step_amp. f_equal. apply charref_text_is. apply charref_amp. }
      destruct (N.eqb_spec x 60) as [->|H60].
      { change (s_lt ++ flat_map esc1 t ++ rest) with (38 :: k_lt ++ flat_map esc1 t ++ rest).
        rewrite data_step_amp. f_equal. apply charref_text_is. apply charref_lt. }
      destruct (N.eqb_spec x 62) as [->|H62].
      { change (s_gt ++ flat_map esc1 t ++ rest) with (38 :: k_gt ++ flat_map esc1 t ++ rest).
        rewrite data_step_amp. f_equal. apply charref_text_is. apply charref_gt. }
      apply data_step_other; apply N.eqb_neq; assumption. }
    destruct (IH (OChars [x] :: o) cd b) as [j Hj].
    exists (S j). cbn [sp_iter]. rewrite Hs. rewrite Hj. f_equal. f_equal.
    cbn [singles map rev]. rewrite <- app_assoc. reflexivity.
Qed.

(* ---------------- attribute values ---------------- *)
Lemma upd_last_snoc {A} (f : A -> A) (l : list A) (x : A) : upd_last f (l ++ [x]) = Some (l ++ [f x]).
Proof. unfold upd_last. rewrite rev_app_distr. cbn [rev app]. rewrite rev_involutive. reflexivity. Qed.

Lemma attr_val_app_snoc x e n a0 an av sc s i tm o cd b :
  attr_val_app x (mk_tk s i (CTag e n (a0 ++ [(an, av)]) sc) tm o cd b)
  = mk_tk s i (CTag e n (a0 ++ [(an, av ++ x)]) sc) tm o cd b.
Proof. unfold attr_val_app. cbn [cur]. rewrite upd_last_snoc. reflexivity. Qed.

(* what the serializer writes for one character of a value quoted with q (escape_lt_in_attrs = lt) *)
Definition escq (q : N) (lt : bool) (x : N) : str :=
  if x =? 38 then s_amp
  else if lt && (x =? 60) then s_lt
  else if x =? q then (if q =? 39 then s_39 else s_quot)
  else [x].

Section Quoted.
  Variable q : N.
  Variable S : tstate.
  Hypothesis Hq : q = 34 \/ q = 39.
  Hypothesis H_close : forall i c tm o cd b,
    sp_step (mk_tk S (q :: i) c tm o cd b) = (mk_tk afterAttributeValueState i c tm o cd b, true).
  Hypothesis H_amp : forall i c tm o cd b,
    sp_step (mk_tk S (38 :: i) c tm o cd b) = (charref_attr (mk_tk S i c tm o cd b), true).
  Hypothesis H_other : forall x i c tm o cd b, (x =? q) = false -> (x =? 38) = false ->
    sp_step (mk_tk S (x :: i) c tm o cd b) = (attr_val_app [nulfix x] (mk_tk S i c tm o cd b), true).

  Lemma charref_attr_is r x i e n a0 an av sc tm o cd b : spec_charref true i = ([x], r) ->
    charref_attr (mk_tk S i (CTag e n (a0 ++ [(an, av)]) sc) tm o cd b)
    = mk_tk S r (CTag e n (a0 ++ [(an, av ++ [x])]) sc) tm o cd b.
  Proof. intro H. unfold charref_attr. cbn [inp]. rewrite H. apply attr_val_app_snoc. Qed.

  Lemma quoted_value_body lt : forall v rest e n a0 an av sc tm o cd b,
    exists j, sp_iter j (mk_tk S (flat_map (escq q lt) v ++ rest) (CTag e n (a0 ++ [(an, av)]) sc) tm o cd b)
              = Some (mk_tk S rest (CTag e n (a0 ++ [(an, av ++ map nulfix v)]) sc) tm o cd b).
  Proof.
    induction v as [|x v IH]; intros rest e n a0 an av sc tm o cd b.
    - exists 0%nat. cbn [map]. rewrite app_nil_r. reflexivity.
    - cbn [flat_map]. rewrite <- app_assoc.
      assert (Hs : sp_step (mk_tk S (escq q lt x ++ flat_map (escq q lt) v ++ rest)
                              (CTag e n (a0 ++ [(an, av)]) sc) tm o cd b)
                   = (mk_tk S (flat_map (escq q lt) v ++ rest)
                        (CTag e n (a0 ++ [(an, av ++ [nulfix x])]) sc) tm o cd b, true)).
      { unfold escq at 1.
        destruct (N.eqb_spec x 38) as [->|H38].
        { change (s_amp ++ flat_map (escq q lt) v ++ rest) with (38 :: k_amp ++ flat_map (escq q lt) v ++ rest).
          rewrite H_amp. f_equal. apply charref_attr_is. apply charref_amp. }
        destruct (lt && (x =? 60)) eqn:Elt.
        { apply andb_true_iff in Elt as [_ E60]. apply N.eqb_eq in E60. subst x.
          change (s_lt ++ flat_map (escq q lt) v ++ rest) with (38 :: k_lt ++ flat_map (escq q lt) v ++ rest).
          rewrite H_amp. f_equal. apply charref_attr_is. apply charref_lt. }
        destruct (N.eqb_spec x q) as [->|Hxq].
        { destruct Hq as [->| ->].
          - replace (34 =? 39) with false by reflexivity.
            change s_quot with (38 :: k_quot). cbn [app].
            change (113 :: 117 :: 111 :: 116 :: 59 :: flat_map (escq 34 lt) v ++ rest)
              with (k_quot ++ flat_map (escq 34 lt) v ++ rest).
            rewrite H_amp. f_equal. apply charref_attr_is. apply charref_quot.
          - replace (39 =? 39) with true by reflexivity.
            change s_39 with (38 :: [35;51;57;59]). cbn [app].
            change (35 :: 51 :: 57 :: 59 :: flat_map (escq 39 lt) v ++ rest)
              with ([35;51;57;59] ++ flat_map (escq 39 lt) v ++ rest).
            rewrite H_amp. f_equal. apply charref_attr_is. apply charref_39. }
        cbn [app]. rewrite H_other by (apply N.eqb_neq; assumption). f_equal. apply attr_val_app_snoc. }
      destruct (IH rest e n a0 an (av ++ [nulfix x]) sc tm o cd b) as [j Hj].
      exists (Datatypes.S j). cbn [sp_iter]. rewrite Hs. cbv beta iota zeta. refine (eq_trans Hj _). cbn [map]. rewrite <- app_assoc. reflexivity.
  Qed.

  (* QUOTED VALUE: the escaped form of ANY value v between quotes q is read back as v (U+0000 as U+FFFD), the
     closing quote is recognised as such, and the tokenizer stands right behind it *)
  Theorem quoted_value_roundtrip lt v rest e n a0 an av sc tm o cd b :
    exists j, sp_iter j (mk_tk S (flat_map (escq q lt) v ++ q :: rest) (CTag e n (a0 ++ [(an, av)]) sc) tm o cd b)
              = Some (mk_tk afterAttributeValueState rest (CTag e n (a0 ++ [(an, av ++ map nulfix v)]) sc) tm o cd b).
  Proof.
    destruct (quoted_value_body lt v (q :: rest) e n a0 an av sc tm o cd b) as [j Hj].
    exists (j + 1)%nat. rewrite (sp_iter_app _ _ _ _ Hj). cbn [sp_iter]. rewrite H_close. reflexivity.
  Qed.
End Quoted.

Lemma dq_close i c tm o cd b :
  sp_step (mk_tk attributeValueDoubleQuotedState (34 :: i) c tm o cd b) = (mk_tk afterAttributeValueState i c tm o cd b, true).
Proof. reflexivity. Qed.
Lemma dq_amp i c tm o cd b :
  sp_step (mk_tk attributeValueDoubleQuotedState (38 :: i) c tm o cd b)
  = (charref_attr (mk_tk attributeValueDoubleQuotedState i c tm o cd b), true).
Proof. reflexivity. Qed.
Lemma dq_other x i c tm o cd b : (x =? 34) = false -> (x =? 38) = false ->
  sp_step (mk_tk attributeValueDoubleQuotedState (x :: i) c tm o cd b)
  = (attr_val_app [nulfix x] (mk_tk attributeValueDoubleQuotedState i c tm o cd b), true).
Proof.
  intros H1 H2. unfold sp_step. cbv [peek advance set_inp]. cbn [st inp hd_error tl cur tmp out cdata_ok bad].
  rewrite H1, H2. reflexivity.
Qed.
Lemma sq_close i c tm o cd b :
  sp_step (mk_tk attributeValueSingleQuotedState (39 :: i) c tm o cd b) = (mk_tk afterAttributeValueState i c tm o cd b, true).
Proof. reflexivity. Qed.
Lemma sq_amp i c tm o cd b :
  sp_step (mk_tk attributeValueSingleQuotedState (38 :: i) c tm o cd b)
  = (charref_attr (mk_tk attributeValueSingleQuotedState i c tm o cd b), true).
Proof. reflexivity. Qed.
Lemma sq_other x i c tm o cd b : (x =? 39) = false -> (x =? 38) = false ->
  sp_step (mk_tk attributeValueSingleQuotedState (x :: i) c tm o cd b)
  = (attr_val_app [nulfix x] (mk_tk attributeValueSingleQuotedState i c tm o cd b), true).
Proof.
  intros H1 H2. unfold sp_step. cbv [peek advance set_inp]. cbn [st inp hd_error tl cur tmp out cdata_ok bad].
  rewrite H1, H2. reflexivity.
Qed.

Definition dq_value_roundtrip :=
  quoted_value_roundtrip 34 attributeValueDoubleQuotedState (or_introl eq_refl) dq_close dq_amp dq_other.
Definition sq_value_roundtrip :=
  quoted_value_roundtrip 39 attributeValueSingleQuotedState (or_intror eq_refl) sq_close sq_amp sq_other.

(* what Ser writes for a quoted value IS that escaped form *)
Lemma flat_map_single {A B} (f : A -> list B) x : flat_map f [x] = f x.
Proof. cbn. apply app_nil_r. Qed.

Lemma three_passes (lt : bool) (q : N) (v : str) :
  q = 34 \/ q = 39 ->
  (if q =? 39 then replace_char 39 s_39 else replace_char 34 s_quot)
    (if lt then replace_char 60 s_lt (replace_char 38 s_amp v) else replace_char 38 s_amp v)
  = flat_map (escq q lt) v.
Proof.
  intros Hq. unfold replace_char.
  assert (P : forall x,
     (if q =? 39 then flat_map (fun y => if y =? 39 then s_39 else [y])
                 else flat_map (fun y => if y =? 34 then s_quot else [y]))
       (if lt then flat_map (fun y => if y =? 60 then s_lt else [y]) (if x =? 38 then s_amp else [x])
        else (if x =? 38 then s_amp else [x]))
     = escq q lt x).
  { intro x. unfold escq.
    destruct (N.eqb_spec x 38) as [->|H38].
    { destruct Hq as [-> | ->]; destruct lt; reflexivity. }
    destruct lt; cbn [andb].
    - rewrite flat_map_single. destruct (N.eqb_spec x 60) as [->|H60].
      { destruct Hq as [-> | ->]; reflexivity. }
      destruct Hq as [-> | ->].
      + replace (34 =? 39) with false by reflexivity. rewrite flat_map_single. reflexivity.
      + replace (39 =? 39) with true by reflexivity. rewrite flat_map_single. reflexivity.
    - destruct Hq as [-> | ->].
      + replace (34 =? 39) with false by reflexivity. rewrite flat_map_single. reflexivity.
      + replace (39 =? 39) with true by reflexivity. rewrite flat_map_single. reflexivity. }
  destruct (q =? 39) eqn:Eq; destruct lt; rewrite ?flat_map_flat_map; apply flat_map_ext; intro x;
    specialize (P x); try rewrite Eq in P; rewrite <- ?flat_map_flat_map; exact P.
Qed.

Lemma quoted_form o v : needs_quote o v = true ->
  let v2 := if escape_lt o then replace_char 60 s_lt (replace_char 38 s_amp v) else replace_char 38 s_amp v in
  let q := if best_quote o then if has_char 39 v2 && negb (has_char 34 v2) then 34
                                else if has_char 34 v2 && negb (has_char 39 v2) then 39 else quote_char o
           else quote_char o in
  q = 34 \/ q = 39 ->
  ser_attr_value o v = [q] ++ flat_map (escq q (escape_lt o)) v ++ [q].
Proof.
  intros Hn v2 q Hq. unfold ser_attr_value. rewrite Hn. fold v2. fold q.
  f_equal. f_equal. subst v2. rewrite <- (three_passes (escape_lt o) q v Hq). destruct (q =? 39); reflexivity.
Qed.
