(* C09 -- Sanitizer output contains only allow-listed markup and URLs (CSS clause: see PARTIAL note). *)
From Coq Require Import NArith List Bool.
From Verif Require Import Sx Str Tok.
From Verif.Gen Require Import Sanitizer Consts.
From Verif.Model Require Import C09.
From Verif.Spec Require Import Url.
From Verif.Proofs Require Import C09.
Import ListNotations.
Local Open Scope N_scope.

(* All statements hold for ARBITRARY allow-lists L (the "custom allow-lists" clause) and any sanitize_css. *)

(* every tag token in the output has an allowed (namespace, name) (a None namespace counts as HTML);
   comments never pass; a disallowed tag becomes exactly one Characters token (inert text once the serializer
   escapes it: C08); all other tokens pass unchanged *)
Theorem c09_elements : forall L css t t', sanitize L css t = Some t' -> tag_allowed L t'.
Proof. exact sanitize_elements. Qed.
Theorem c09_no_comment : forall L css t t', sanitize L css t = Some t' -> match t' with TComment _ => False | _ => True end.
Proof. exact sanitize_no_comment. Qed.
Theorem c09_comment_dropped : forall L css s, sanitize L css (TComment s) = None.
Proof. exact sanitize_comment_dropped. Qed.
Theorem c09_disallowed_is_text : forall L css t,
  (match t with TStart ns n _ | TEnd ns n | TEmpty ns n _ => element_allowed L ns n = false | _ => False end) ->
  exists s, sanitize L css t = Some (TChars s).
Proof. exact sanitize_disallowed_is_text. Qed.
Theorem c09_other_unchanged : forall L css t,
  (match t with TStart _ _ _ | TEnd _ _ | TEmpty _ _ _ | TComment _ => False | _ => True end) ->
  sanitize L css t = Some t.
Proof. exact sanitize_other_unchanged. Qed.

(* every attribute of an allowed tag is on the attribute allow-list *)
Theorem c09_attributes : forall L css a,
  forallb (fun kv => mem_key (fst kv) L.(l_attributes)) (san_attrs L css a) = true.
Proof. exact san_attrs_keys. Qed.

(* a URI-valued attribute that survives had a value the URI gate kept ... *)
Theorem c09_uri_attr_was_checked : forall L css a kv,
  In kv (san_attrs L css a) -> mem_key (fst kv) L.(l_uri_attrs) = true ->
  exists v0, In (fst kv, v0) a /\ uri_kept L v0 = true.
Proof. exact san_attrs_uri_kept. Qed.

(* ... and for EVERY value the gate keeps, either a browser (URL standard: strip C0/space, drop tab/LF/CR, scheme
   = letter then letters/digits/+-. up to ':') sees no scheme, or the scheme it sees is an allowed protocol:
   no case, control-character, whitespace, entity-text or non-ASCII-case obfuscation gets a forbidden scheme through *)
Theorem c09_uri_scheme_safe : forall L v,
  uri_kept L v = true ->
  match browser_scheme v with None => True | Some s => mem_str s L.(l_protocols) = true end.
Proof. exact uri_scheme_safe. Qed.

(* PARTIAL: a kept data: URI has an allowed content type in the sanitizer's own parse of the value; how a
   browser's MIME parser reads the same value is not modelled *)
Theorem c09_data_content_type_partial : forall L v,
  uri_kept L v = true ->
  let val := filter (fun c => negb (c =? 65533)) (py_lower (filter (fun c => negb (in_rng uri_strip_class c)) (unescape v))) in
  forall rest, url_scheme val = (Some [100;97;116;97], rest) ->
  exists ct, data_content_type (url_path rest) = Some ct /\ mem_str ct L.(l_content_types) = true.
Proof. exact data_content_type_allowed. Qed.

(* facts about the default lists *)
Theorem c09_default_lists_have_no_rawtext :
  forallb (fun k => negb (mem_str (snd k) rawtext_names)) allowed_elements = true.
Proof. exact default_lists_have_no_rawtext. Qed.
Theorem c09_default_no_event_handlers :
  forallb (fun k => negb (starts_with [111;110] (snd k))) allowed_attributes = true.
Proof. exact default_no_event_handlers. Qed.

(* PARTIAL: sanitize_css (the style attribute) is a parameter of the model: its clause -- only allowed
   properties/keywords, never url() -- is decided by search on the real filter only, not by a theorem. *)

(* non-vacuity: "jav&#x09;ascript:alert(1)" typed as text "jav\tascript:..." is dropped; "HTTP://x" is kept *)
Example c09_example :
  uri_kept default_lists [106;97;118;9;97;115;99;114;105;112;116;58;97] = false /\
  uri_kept default_lists [72;84;84;80;58;47;47;120] = true /\
  browser_scheme [32;72;84;9;84;80;58;47;47;120] = Some [104;116;116;112].
Proof. repeat split; vm_compute; reflexivity. Qed.
