(* C12 -- Parser objects are reusable: no state leaks between parses (PARTIAL: frame argument + caches). *)
From Coq Require Import NArith List Bool Arith.
From Verif Require Import Sx Str Tok.
From Verif.Gen Require Import Frame.
From Verif.Model Require Import C12.
From Verif.Proofs Require Import C12.
Import ListNotations.

(* frame: every attribute of HTMLParser, of its 23 phase objects and of the TreeBuilder that is written while
   parsing is re-initialised on entry of the next parse (HTMLParser._parse / reset / TreeBuilder.reset) -- the
   tokenizer and the input stream are new objects for every parse -- except five attributes whose harmlessness is
   argued in Model/C12.v: allowed_unreset.  The write sets are recomputed from the AST on every run. *)
Theorem c12_no_leaky_attribute : leaky = [].
Proof. exact no_leaky_attribute. Qed.
Theorem c12_frame_nonvacuous : (20 <=? N.of_nat (length attr_writes))%N = true.
Proof. exact frame_nonvacuous. Qed.

(* the bounded start-/end-tag handler caches are observationally absent: for EVERY sequence of lookups, whatever
   the bound and whatever was cached before (consistently), each lookup returns what the dispatch table returns *)
Theorem c12_cache_transparent : forall V table bound ks c, cache_ok V table c ->
  fst (lookups V table bound c ks) = map table ks /\ cache_ok V table (snd (lookups V table bound c ks)).
Proof. exact cache_transparent. Qed.
Theorem c12_cache_bounded : forall V table bound c k,
  (length c <= bound)%nat -> (length (snd (lookup V table bound c k)) <= bound)%nat.
Proof. exact lookup_bounded. Qed.

(* PARTIAL: the frame argument is syntactic (attribute writes of the long-lived objects; mutations of nodes and
   tokens, which are per-parse objects, are out of its scope) and says nothing about module-level caches
   (charsUntilRegEx, the entity trie, moduleFactoryFactory) or threads: those are exercised by the history run
   (reused parser vs fresh parser over call sequences with aborts), not proved. *)
