(* C14 -- Every character reference decodes to the standard's replacement. *)
From Coq Require Import NArith List Bool.
From Verif Require Import Sx Str Tok.
From Verif.Gen Require Import Entities.
From Verif.Model Require Import CharRef C14.
From Verif.Spec Require Import CharRef.
From Verif.Proofs Require Import C14 C14num.
Import ListNotations.
Local Open Scope N_scope.

(* the 2231-entry table and the numeric replacement table regenerated from constants.py are identical to
   CPython's own copy of the standard's tables (html.entities.html5, html._invalid_charrefs) *)
Theorem c14_tables_agree :
  tbl_eqb entities py_html5 = true /\ ntbl_eqb replacementCharacters py_invalid_charrefs = true /\
  length entities = 2231%nat.
Proof. exact (conj entities_agree_with_python (conj replacements_agree_with_python entity_count)). Qed.

(* numeric references: for EVERY value n (no bound) the replacement is the standard's: 0, surrogates and
   values above 0x10FFFF give U+FFFD, the C1 table is applied, everything else is the code point itself *)
Theorem c14_numeric_ref_spec : forall n, fst (num_char n) = spec_num n.
Proof. exact numeric_ref_spec. Qed.

(* ... and for EVERY digit string (decimal or hexadecimal, any length, any number of leading zeros) the value
   the code derives (zeros stripped, cut at 7 significant digits) decodes like the exact value *)
Theorem c14_digit_string : forall radix ds,
  (radix = 10 \/ radix = 16) -> forallb (valid_digit radix) ds = true ->
  let numStr := drop_while (fun c => c =? 48) ds in
  let n := if Nat.ltb 7 (length numStr) then 1114112 else value radix numStr in
  fst (num_char n) = spec_num (value radix ds).
Proof. exact truncated_value_ok. Qed.

(* named references: for an ARBITRARY table and EVERY input the extend-then-backtrack algorithm finds THE
   longest identifier that is a prefix of the input *)
Theorem c14_longest_match : forall tbl inp pre rest,
  scan tbl [] inp = (pre, rest) ->
  match longest_prefix tbl pre with
  | Some name => is_key tbl name = true /\ starts_with name inp = true /\
                 forall k, is_key tbl k = true -> starts_with k inp = true -> (length k <= length name)%nat
  | None => forall k, is_key tbl k = true -> starts_with k inp = false
  end.
Proof. exact longest_match. Qed.

(* ... and the text, the parse errors and the attribute-value exception are the standard's
   (Spec/CharRef.v: spec_named), up to name characters html5lib has already consumed and emits verbatim *)
Theorem c14_named_vs_spec : forall inAttr inp,
  let m := consume_named entities inAttr inp in
  let s := spec_named entities inAttr inp in
  exists extra,
    fst (fst m) = fst (fst s) ++ extra /\ snd (fst m) = snd (fst s) /\ snd s = extra ++ snd m /\
    forallb name_char extra = true.
Proof. exact named_vs_spec_entities. Qed.

(* conversely (named part): the reference the serializer writes for an unencodable character,
   "&" + _encode_entity_map[c] + ";", decodes to exactly that character whatever text follows.
   C1 controls cannot round-trip at all (known finding C14-unencodable-c1-control-roundtrip). *)
Theorem c14_encode_decode_named_partial : forall e rest,
  In e encode_entity_map ->
  consume_entity None false (with_semi (snd e) ++ rest) = ([fst e], [], rest).
Proof. exact encode_decode_named. Qed.

(* ... and the whole replacement htmlentityreplace_errors writes for a code point (Model/C14.v: encode_ref -- the named
   reference where _encode_entity_map has the code point, else "&#x" + hex(cp)[2:] + ";") decodes to exactly that
   code point, whatever text follows: for EVERY code point outside the replacement table (U+0000, U+000D, the C1
   controls) and the surrogates *)
Theorem c14_encode_ref_decodes : forall c rest, 0 < c -> c < 1114112 -> lookup_N replacementCharacters c = None ->
  (55296 <=? c) && (c <=? 57343) = false ->
  fst (fst (consume_entity None false (tl (encode_ref c) ++ rest))) = [c] /\
  snd (consume_entity None false (tl (encode_ref c) ++ rest)) = rest.
Proof. exact encode_ref_decodes. Qed.

(* non-vacuity: "&notit;" in text -> "¬i" with "t;" left to read; in an attribute value -> "&noti" *)
Example c14_example :
  consume_entity None false [110;111;116;105;116;59] = ([172;105], [E_named_no_semicolon], [116;59]) /\
  consume_entity None true [110;111;116;105;116;59] = ([38;110;111;116;105], [E_named_no_semicolon], [116;59]) /\
  consume_entity None false [35;120;56;48;59;33] = ([8364], [E_illegal_codepoint], [33]).
Proof. repeat split; vm_compute; reflexivity. Qed.
