(* C19 -- SAX adapter delivers a well-nested event stream equal to the tree. *)
From Coq Require Import NArith List Bool.
From Verif Require Import Sx Str Tok Tree.
From Verif.Gen Require Import Sax Consts.
From Verif.Model Require Import C19.
From Verif.Proofs Require Import C19.
Import ListNotations.
Local Open Scope N_scope.

(* exactly one startDocument/endDocument pair around balanced prefix mappings (the same prefixes, each once)
   around element/character events only *)
Theorem c19_frame : forall ts evs, Sax ts = Some evs ->
  exists b, body_events ts = Some b /\ forallb is_body_event b = true /\
    evs = [EStartDoc] ++ map (fun pn => EStartPrefix (fst pn) (snd pn)) prefix_mapping
          ++ b ++ map (fun pn => EEndPrefix (fst pn)) prefix_mapping ++ [EEndDoc].
Proof. exact sax_frame. Qed.
Theorem c19_prefixes_distinct : NoDup (map fst prefix_mapping).
Proof. exact prefix_mapping_nodup. Qed.

(* to_sax does not hit its assertion on streams without SerializeError/Entity tokens *)
Theorem c19_total : forall ts,
  forallb (fun t => match t with TEntity _ | TSerErr _ | TOther _ => false | _ => true end) ts = true ->
  exists evs, Sax ts = Some evs.
Proof. exact sax_total. Qed.

(* for EVERY forest (void elements childless): the events of its walk are properly nested -- the stack
   consumer [sax_rebuild] accepts them -- and rebuild exactly the forest minus comments/doctype with
   adjacent character data concatenated: same elements, namespaces, attributes, text, nesting and order *)
Theorem c19_tree : forall kids,
  forallb (wf_node voidElements html_ns) kids = true ->
  exists evs, Sax (walk_all voidElements html_ns kids) = Some evs /\ sax_rebuild evs = Some (norm kids).
Proof. exact sax_tree. Qed.

(* each of the foreign attributes the parser can create gets its original qualified name, and its prefix
   is among the declared mappings with the right namespace *)
Theorem c19_qnames : forallb qname_ok adjustForeignAttributes = true.
Proof. exact sax_qnames_ok. Qed.

(* non-vacuity: <p>a <br><!--c-->b</p> *)
Example c19_example :
  let t := [Elem None [112] [] [Text [97; 32]; Elem None [98; 114] [] []; Comm [99]; Text [98]]] in
  forallb (wf_node voidElements html_ns) t = true /\
  norm t = [Elem None [112] [] [Text [97; 32]; Elem None [98; 114] [] []; Text [98]]].
Proof. split; vm_compute; reflexivity. Qed.
