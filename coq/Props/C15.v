(* C15 -- Encoded serializations declare their encoding (the injection filter; PARTIAL for the byte level). *)
From Coq Require Import NArith List Bool.
From Verif Require Import Sx Str Tok.
From Verif.Model Require Import C15.
From Verif.Proofs Require Import C15 C15inj.
Import ListNotations.
Local Open Scope N_scope.

(* for EVERY stream without an EmptyTag named head in which every opened head is closed: the output minus the
   injected token is the input, token for token and in order, and the only difference is the VALUE of attributes
   of meta tokens (same namespace, name, attribute keys and order): everything else is left unchanged *)
Theorem c15_only_meta_values_change : forall enc ts,
  forallb not_empty_head ts = true -> pending (snd (run_steps enc init ts)) = [] ->
  Forall2 rel ts (noninj (fst (run_steps enc init ts))).
Proof. exact imc_only_meta_values_change. Qed.

(* a rewritten meta declares the encoding: its charset attribute is the encoding, or it is a content-type
   pragma whose content is "text/html; charset=<encoding>"; a rewrite keeps every attribute key *)
Theorem c15_rewrite_declares : forall enc a,
  snd (rewrite_meta enc a) = true -> declares enc (fst (rewrite_meta enc a)).
Proof. exact rewrite_meta_declares. Qed.
Theorem c15_rewrite_keeps_keys : forall enc a, map fst (fst (rewrite_meta enc a)) = map fst a.
Proof. exact rewrite_meta_keys. Qed.
(* ... and so does the injected token: <meta charset=ENCODING> *)
Theorem c15_injected_declares : forall enc,
  match injected enc with TEmpty _ n a => is_name s_meta n = true /\ declares enc a | _ => False end.
Proof. exact injected_declares. Qed.

(* WHERE AND WHEN: for EVERY stream with one head element (pre, <head>, mid, </head>, post, no other head tags), the
   output is the input with every meta declaration rewritten (rw), plus exactly one <meta charset=ENCODING> directly
   after the head start tag if and only if no declaration (decl) came before </head> *)
Theorem c15_one_declaration_injected_iff_none_found : forall enc pre ns h a mid ns' h' post,
  forallb plain pre = true -> forallb plain mid = true -> forallb plain post = true ->
  is_name s_head h = true -> is_name s_head h' = true ->
  IMC enc (pre ++ [TStart ns h a] ++ mid ++ [TEnd ns' h'] ++ post)
  = map (rw enc) pre ++ [TStart ns h a] ++
    (if existsb (decl enc) pre || existsb (decl enc) mid then [] else [injected enc]) ++
    map (rw enc) mid ++ [TEnd ns' h'] ++ map (rw enc) post.
Proof. exact imc_one_head. Qed.

(* PARTIAL: streams with several or unclosed head elements are covered by c15_only_meta_values_change and the
   correspondence run only; the byte-level claims (every unencodable character becomes a character reference, the
   prescan finds the declaration, the decoded tree is the same) are decided by the end-to-end run over all
   codecs of webencodings.LABELS, with three recorded findings (non-ASCII-compatible encodings, raw-text
   elements, C1 controls). *)

(* non-vacuity: <head><title></title></head> gets <meta charset=utf-8> right after <head> *)
Example c15_example :
  IMC [117;116;102;45;56] [TStart None s_head []; TStart None [116] []; TEnd None [116]; TEnd None s_head] =
  [TStart None s_head []; TEmpty None s_meta [((None, s_charset), [117;116;102;45;56])];
   TStart None [116] []; TEnd None [116]; TEnd None s_head].
Proof. vm_compute. reflexivity. Qed.
