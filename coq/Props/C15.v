Definition placeholder := 0.
