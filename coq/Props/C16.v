(* C16 -- Strict mode raises ParseError exactly when a parse error exists. *)
From Coq Require Import NArith List Bool.
From Verif Require Import Sx Str Tok.
From Verif.Gen Require Import Errors.
From Verif.Model Require Import C16.
From Verif.Proofs Require Import C16.
Import ListNotations.
Local Open Scope N_scope.

(* every one of the (>200) places of the source that raise a parse error -- parser, tokenizer and input
   stream -- uses a code that is a key of E, and supplies every variable the message template formats.
   [find_cex] is the failing site when this breaks. *)
Theorem c16_codes_defined_and_templates_format : find_cex = None.
Proof. exact all_sites_format. Qed.
Theorem c16_sites_nonvacuous :
  (200 <=? N.of_nat (length error_sites)) = true /\ (100 <=? N.of_nat (length E_table)) = true.
Proof. exact site_count. Qed.

(* frame fact: `strict` influences nothing but the raise inside parseError *)
Theorem c16_strict_read_only_in_parseError :
  strict_reads = [[104;116;109;108;53;108;105;98;47;104;116;109;108;53;112;97;114;115;101;114;46;112;121;58;
                   72;84;77;76;80;97;114;115;101;114;46;112;97;114;115;101;69;114;114;111;114]].
Proof. exact strict_read_only_in_parseError. Qed.

(* for every sequence of parseError calls: the strict run raises iff the non-strict run records an error, the
   error raised is the first one recorded, and it is recorded before it is raised *)
Theorem c16_strict_iff_errors : forall calls,
  match snd (run_calls true calls []) with
  | None => fst (run_calls false calls []) = []
  | Some x => exists e rest, fst (run_calls false calls []) = e :: rest /\ fst (run_calls true calls []) = [e] /\
                             x = (if format_ok e then ParseErrorExn e else KeyErrorExn e)
  end.
Proof. exact strict_iff_errors. Qed.

(* the exception is ParseError, never KeyError, for calls made from the sites of the source; and every error a
   non-strict parse records formats *)
Theorem c16_strict_raises_ParseError : forall e r s,
  In s error_sites -> e = site_err s -> snd (run_calls true (e :: r) []) = Some (ParseErrorExn e).
Proof. exact strict_raises_ParseError. Qed.
Theorem c16_recorded_errors_format : forall calls,
  Forall (fun e => exists s, In s error_sites /\ e = site_err s) calls ->
  forallb format_ok (fst (run_calls false calls [])) = true.
Proof. exact nonstrict_all_format. Qed.
