(* C03 -- Parsing is total: any input yields a well-formed document skeleton (PARTIAL). *)
From Coq Require Import NArith List Bool Arith.
From Verif Require Import Sx Str.
From Verif.Gen Require Import Phases Tokenizer.
From Verif.Model Require Import TokBase C02 C03.
From Verif.Proofs Require Import C02a C02b C03.
Import ListNotations.
Local Open Scope N_scope.

(* every (phase, tag name) -> handler entry of html5parser.py is the one the model of tree construction (C01's TC)
   was written against; the run against the implementation below then covers every entry *)
Theorem c03_dispatch_tables_are_the_fixed_copy : Verif.Gen.Phases.dispatch = Verif.Spec.Dispatch.dispatch_spec.
Proof. exact dispatch_is_the_fixed_copy. Qed.

(* TERMINATION, tokenizer half: the tokenizer's main loop ends for every input, from every state (C02) *)
Theorem c03_tokenizer_terminates : forall s c t cd i, tokenize s c t cd i <> None.
Proof. exact tokenize_total. Qed.

(* TERMINATION, end of input: the phases the EOF loop (`while reprocess`) can go through are pairwise different,
   for every chain of hand-overs the code allows (graph extracted from the source by a conservative
   inter-procedural walk) -- so the loop runs at most 7 times and its `assert self.phase not in phases` is dead *)
Theorem c03_eof_loop_never_revisits : forall l, chain l -> NoDup l.
Proof. exact eof_chain_nodup. Qed.
Theorem c03_eof_loop_length : forall n, In n phase_names -> (rk n <= 6)%nat.
Proof. exact rk_bound. Qed.
Theorem c03_every_current_phase_handles_eof :
  forallb (fun n => mem_str n never_current_phases) phases_without_processEOF = true.
Proof. exact no_eof_never_current. Qed.

(* generateImpliedEndTags pops exactly the maximal run of implied-end-tag elements at the top of the stack (the
   standard's "generate implied end tags") with as many iterations as popped elements, and can never pop the
   root: the stack of open elements stays non-empty *)
Theorem c03_implied_end_tags : forall ex stack s d, generate_implied_end_tags ex stack = (s, d) ->
  exists popped, stack = s ++ popped /\ length popped = d /\ forallb (poppable ex) popped = true /\
                 match rev s with [] => True | n :: _ => poppable ex n = false end.
Proof. exact implied_end_tags_spec. Qed.
Theorem c03_implied_end_tags_keep_root : forall ex rest,
  exists s', fst (generate_implied_end_tags ex ([104;116;109;108] :: rest)) = [104;116;109;108] :: s'.
Proof. exact implied_end_tags_keep_root. Qed.

(* PARTIAL.  "Never raises" and the skeleton clause for the handlers of the 23 phases are not theorems (they
   need the tree-construction model); they are decided on every run by parsing tag soup, pathological nesting
   and random bytes with both builders, document and fragment mode, and checking the skeleton of the result. *)
