(* C06 -- Byte input is decoded with the encoding the documented precedence selects (PARTIAL). *)
From Coq Require Import NArith List Bool.
From Verif Require Import Sx Str Tok.
From Verif.Gen Require Import Encodings.
From Verif.Model Require Import C06.
From Verif.Proofs Require Import C06 C06content.
From Verif.Spec Require Import ContentCharset.
Import ListNotations.
Local Open Scope N_scope.

(* for ALL argument values: the encoding chosen is the first of BOM, override, transport, meta prescan,
   same-origin parent (unless UTF-16), likely, default, windows-1252 that yields an encoding, and it is
   "certain" exactly for the first three *)
Theorem c06_precedence : forall bom a meta, determine bom a meta = first_some (chain bom a meta).
Proof. exact determine_is_first_some. Qed.
Theorem c06_certain_iff : forall bom a meta, snd (determine bom a meta) = certain_source bom a.
Proof. exact certain_iff. Qed.
Theorem c06_source_order_from_source : 
  determine_order = [(0, true); (1, true); (2, true); (3, false); (4, false); (5, false); (6, false)].
Proof. exact source_order_from_ast. Qed.

(* a certain encoding is never changed by document content *)
Theorem c06_certain_independent_of_content : forall bom a m1 m2,
  certain_source bom a = true -> determine bom a m1 = determine bom a m2.
Proof. exact certain_independent_of_content. Qed.

(* UTF-16: a parent encoding of that family is skipped; a <meta> declaring it means UTF-8 *)
Theorem c06_parent_never_utf16 : forall a e, parent_filtered a = Some e -> is_utf16 e = false.
Proof. exact parent_never_utf16. Qed.
Theorem c06_meta_utf16_is_utf8 : forall raw e,
  detect_meta raw = Some e -> str_eqb e utf16le || str_eqb e utf16be = false.
Proof. exact meta_never_utf16. Qed.

Theorem c06_meta_x_user_defined_is_windows_1252 : forall raw e,
  detect_meta raw = Some e -> str_eqb e [120;45;117;115;101;114;45;100;101;102;105;110;101;100] = false.
Proof. exact meta_never_x_user_defined. Qed.

(* ContentAttrParser.parse -- positions into a byte string, StopIteration as an outcome -- computes, for EVERY
   attribute value, what the standard's "algorithm for extracting a character encoding from a meta element"
   (Spec/ContentCharset.v, a function on the list of characters) computes *)
Theorem c06_content_charset_is_the_standard : forall v, content_charset v = extract_charset v.
Proof. exact content_charset_is_the_standard. Qed.

(* the prescan reads only the first 1024 bytes *)
Theorem c06_prescan_window : forall raw, detect_meta raw = detect_meta (firstn (N.to_nat numBytesMeta) raw).
Proof. exact prescan_window. Qed.
Theorem c06_window_is_1024 : numBytesMeta = 1024.
Proof. exact window_is_1024. Qed.

(* every label of the table resolves to its encoding *)
Theorem c06_all_labels_resolve :
  forallb (fun e => match lookup (fst e) with Some n => str_eqb n (snd e) | None => false end) LABELS = true.
Proof. exact all_labels_resolve. Qed.

(* PARTIAL: the prescan mini-parser itself (Model/C06.v: prescan) is a transcription tied to the code by
   exact-agreement correspondence; its agreement with the standard's prescan is decided by the search oracle
   (standard's algorithm with six recorded deviations), not by a theorem -- except for the content-attribute
   parser, for which c06_content_charset_is_the_standard is that theorem; the late-<meta> reparse is not modelled. *)

(* non-vacuity *)
Example c06_example :
  prescan [60;109;101;116;97;32;99;104;97;114;115;101;116;61;107;111;105;56;45;114;62] = Some [107;111;105;56;45;114] /\
  determine None {| a_override := None; a_transport := Some [85;84;70;45;56]; a_parent := None; a_likely := None; a_default := None |}
            (Some [107;111;105;56;45;114]) = (utf8, true).
Proof. split; vm_compute; reflexivity. Qed.
