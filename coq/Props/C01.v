(* C01 -- Tree construction follows the WHATWG algorithm (PARTIAL). *)
From Coq Require Import NArith List Bool.
From Verif Require Import Sx Str Tok.
From Verif.Gen Require Phases TreeTables.
From Verif.Spec Require TreeTables Dispatch.
From Verif.Model Require Import TCdom TC.
From Verif.Proofs Require Import C01 C01b.
Import ListNotations.
Local Open Scope N_scope.

(* The reference is the tree-construction model TC (Model/TC.v: the 23 insertion modes handler by handler, the
   adoption agency algorithm, foster parenting, reconstruction of the active formatting elements, Noah's Ark,
   the foreign-content dispatch, reset of the insertion mode), run over the regenerated tokenizer model; with
   all deviation switches on it is the WHATWG algorithm as transcribed here.  It relies on tables: every one of
   them, re-read from the source on every run, equals the fixed copy the model was written against ... *)
Theorem c01_tables_are_the_fixed_copies :
  Gen.TreeTables.quirks_prefixes = Spec.TreeTables.quirks_prefixes /\
  Gen.TreeTables.quirks_exact = Spec.TreeTables.quirks_exact /\
  Gen.TreeTables.quirks_prefixes_no_sysid = Spec.TreeTables.quirks_prefixes_no_sysid /\
  Gen.TreeTables.limited_prefixes = Spec.TreeTables.limited_prefixes /\
  Gen.TreeTables.limited_prefixes_sysid = Spec.TreeTables.limited_prefixes_sysid /\
  Gen.TreeTables.adjust_mathml = Spec.TreeTables.adjust_mathml /\
  Gen.TreeTables.adjust_svg = Spec.TreeTables.adjust_svg /\
  Gen.TreeTables.adjust_foreign = Spec.TreeTables.adjust_foreign /\
  Gen.TreeTables.svg_tag_names = Spec.TreeTables.svg_tag_names /\
  Gen.TreeTables.breakout_elements = Spec.TreeTables.breakout_elements /\
  Gen.TreeTables.new_modes = Spec.TreeTables.new_modes /\
  Gen.TreeTables.scope_default = Spec.TreeTables.scope_default /\
  Gen.TreeTables.scope_button = Spec.TreeTables.scope_button /\
  Gen.TreeTables.scope_list = Spec.TreeTables.scope_list /\
  Gen.TreeTables.scope_table = Spec.TreeTables.scope_table /\
  Gen.TreeTables.scope_select = Spec.TreeTables.scope_select /\
  Gen.TreeTables.special_elements = Spec.TreeTables.special_elements /\
  Gen.TreeTables.table_insert_mode_elements = Spec.TreeTables.table_insert_mode_elements /\
  Gen.TreeTables.heading_elements = Spec.TreeTables.heading_elements /\
  Gen.TreeTables.cdata_elements = Spec.TreeTables.cdata_elements /\
  Gen.TreeTables.rcdata_elements = Spec.TreeTables.rcdata_elements /\
  Gen.TreeTables.html_integration_points = Spec.TreeTables.html_integration_points /\
  Gen.TreeTables.mathml_text_integration_points = Spec.TreeTables.mathml_text_integration_points /\
  Gen.TreeTables.namespaces_tbl = Spec.TreeTables.namespaces_tbl.
Proof. exact all_tables_equal. Qed.

(* ... and so do the start/end tag dispatch tables of the 23 phases, read from the live MethodDispatcher objects *)
Theorem c01_dispatch_tables_are_the_fixed_copy : Gen.Phases.dispatch = Spec.Dispatch.dispatch_spec.
Proof. exact dispatch_tables_equal. Qed.

(* "has an element in scope": for every target, every one of the five scope kinds and EVERY stack that contains
   the root html element, the walk down the stack stops -- the `assert False` at its end is unreachable *)
Theorem c01_scope_walk_always_stops : forall n v s x,
  In x (opn s) -> name_tuple s x = html_tuple -> scope_asserts n v s = false.
Proof. exact scope_never_asserts_with_root. Qed.

(* ... and it means what the standard says: "has an element in scope" is true exactly when, reading the stack from
   the current node down, an HTML element with the target name comes before any element of the scope's stop list
   (for the select scope: before any element NOT on its list) *)
Theorem c01_in_scope_meaning : forall n v s,
  in_scope_str n v s = true <->
  exists pre x post, rev (opn s) = pre ++ x :: post /\ is_html_named s n x = true /\
    forall y, In y pre -> is_html_named s n y = false /\
                          xorb (snd (scope_set v)) (mem_pair (name_tuple s y) (fst (scope_set v))) = false.
Proof. exact in_scope_meaning. Qed.

(* "clear the stack back to a table / table body / table row context" (as repaired in /repo: only HTML elements
   stop it): with an HTML-namespace element of one of the stop names on the stack -- the root html element always
   is -- the loop never indexes an empty stack, changes nothing but the stack, and leaves exactly the elements
   up to the topmost such element.  (Before the repair the loop stopped at foreign namesakes: the cause of a
   non-terminating parse and of an assertion failure, see DESIGN R1.7.) *)
Theorem c01_clear_stack_is_total : forall names s r,
  In r (opn s) -> ens (d s) r = htmlns s -> name_in (ename (d s) r) names = true ->
  crash (pop_while_not_html names s) = crash s /\ d (pop_while_not_html names s) = d s /\
  exists k y, opn (pop_while_not_html names s) = firstn (Datatypes.S k) (opn s) /\ nth_error (opn s) k = Some y /\
              stops names s y = true /\ forall z, In z (skipn (Datatypes.S k) (opn s)) -> stops names s z = false.
Proof. exact clear_stack_total. Qed.


(* PARTIAL.  That the implementation computes the same tree as TC is decided on every run by parsing generated
   markup with the real parser (DOM builder, document and fragment mode with 49 containers, scripting on/off,
   namespacing on/off) and comparing trees -- exact agreement is required with the deviation switches off, and
   every difference from the all-switches-on (WHATWG) variant must be one of the listed findings.  TC and its
   WHATWG switches are a transcription of the standard from memory (no copy in the sandbox): trusted base. *)
