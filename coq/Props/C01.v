(* C01 -- Tree construction follows the WHATWG algorithm (PARTIAL). *)
From Coq Require Import NArith List Bool.
From Verif Require Import Sx Str Tok.
From Verif.Gen Require Phases TreeTables.
From Verif.Spec Require TreeTables Dispatch.
From Verif.Model Require Import TCdom TC.
From Verif.Proofs Require Import C01.
Import ListNotations.
Local Open Scope N_scope.

(* The reference is the tree-construction model TC (Model/TC.v: the 23 insertion modes handler by handler, the
   adoption agency algorithm, foster parenting, reconstruction of the active formatting elements, Noah's Ark,
   the foreign-content dispatch, reset of the insertion mode), run over the regenerated tokenizer model; with
   all deviation switches on it is the WHATWG algorithm as transcribed here.  It relies on tables: every one of
   them, re-read from the source on every run, equals the fixed copy the model was written against ... *)
Theorem c01_tables_are_the_fixed_copies :
  Gen.TreeTables.quirks_prefixes = Spec.TreeTables.quirks_prefixes /\
  Gen.TreeTables.quirks_exact = Spec.TreeTables.quirks_exact /\
  Gen.TreeTables.quirks_prefixes_no_sysid = Spec.TreeTables.quirks_prefixes_no_sysid /\
  Gen.TreeTables.limited_prefixes = Spec.TreeTables.limited_prefixes /\
  Gen.TreeTables.limited_prefixes_sysid = Spec.TreeTables.limited_prefixes_sysid /\
  Gen.TreeTables.adjust_mathml = Spec.TreeTables.adjust_mathml /\
  Gen.TreeTables.adjust_svg = Spec.TreeTables.adjust_svg /\
  Gen.TreeTables.adjust_foreign = Spec.TreeTables.adjust_foreign /\
  Gen.TreeTables.svg_tag_names = Spec.TreeTables.svg_tag_names /\
  Gen.TreeTables.breakout_elements = Spec.TreeTables.breakout_elements /\
  Gen.TreeTables.new_modes = Spec.TreeTables.new_modes /\
  Gen.TreeTables.scope_default = Spec.TreeTables.scope_default /\
  Gen.TreeTables.scope_button = Spec.TreeTables.scope_button /\
  Gen.TreeTables.scope_list = Spec.TreeTables.scope_list /\
  Gen.TreeTables.scope_table = Spec.TreeTables.scope_table /\
  Gen.TreeTables.scope_select = Spec.TreeTables.scope_select /\
  Gen.TreeTables.special_elements = Spec.TreeTables.special_elements /\
  Gen.TreeTables.table_insert_mode_elements = Spec.TreeTables.table_insert_mode_elements /\
  Gen.TreeTables.heading_elements = Spec.TreeTables.heading_elements /\
  Gen.TreeTables.cdata_elements = Spec.TreeTables.cdata_elements /\
  Gen.TreeTables.rcdata_elements = Spec.TreeTables.rcdata_elements /\
  Gen.TreeTables.html_integration_points = Spec.TreeTables.html_integration_points /\
  Gen.TreeTables.mathml_text_integration_points = Spec.TreeTables.mathml_text_integration_points /\
  Gen.TreeTables.namespaces_tbl = Spec.TreeTables.namespaces_tbl.
Proof. exact all_tables_equal. Qed.

(* ... and so do the start/end tag dispatch tables of the 23 phases, read from the live MethodDispatcher objects *)
Theorem c01_dispatch_tables_are_the_fixed_copy : Gen.Phases.dispatch = Spec.Dispatch.dispatch_spec.
Proof. exact dispatch_tables_equal. Qed.

(* "has an element in scope": for every target, every one of the five scope kinds and EVERY stack that contains
   the root html element, the walk down the stack stops -- the `assert False` at its end is unreachable *)
Theorem c01_scope_walk_always_stops : forall n v s x,
  In x (opn s) -> name_tuple s x = html_tuple -> scope_asserts n v s = false.
Proof. exact scope_never_asserts_with_root. Qed.

(* PARTIAL.  That the implementation computes the same tree as TC is decided on every run by parsing generated
   markup with the real parser (DOM builder, document and fragment mode with 49 containers, scripting on/off,
   namespacing on/off) and comparing trees -- exact agreement is required with the deviation switches off, and
   every difference from the all-switches-on (WHATWG) variant must be one of the listed findings.  TC and its
   WHATWG switches are a transcription of the standard from memory (no copy in the sandbox): trusted base. *)
