(* C04 -- The parsed tree does not depend on the tree builder chosen.
   What is a theorem here: the structural invariant of the ElementTree back end whose violation was the
   known builder divergence.  The equality of the abstract trees built by the two back ends for every
   operation sequence is NOT proved in this round; it is decided by the correspondence of both models with the
   real wrappers and by the document-level differential run (see MANIFEST level_claimed). *)
From Coq Require Import NArith List Bool.
From Verif Require Import Sx Str Tok Tree.
From Verif.Model Require Import C04.
From Verif.Proofs Require Import C04.
Import ListNotations.

(* for EVERY sequence of node primitives (any arguments, including failing ones) the wrapper's _childNodes
   lists exactly the element's real children in order: nothing the parser inserts can be forgotten by
   reparentChildren / getFragment / removeChild *)
Theorem c04_etree_childnodes_in_sync : forall ops, InvE (fst (run_ops e_step [] ops)).
Proof. exact reachable_inv. Qed.
Theorem c04_step_preserves : forall s o, InvE s -> InvE (fst (e_step s o)).
Proof. exact step_preserves_inv. Qed.
Theorem c04_remove_atomic : forall s p n, InvE s -> snd (e_remove p n s) = ValueErr -> fst (e_remove p n s) = s.
Proof. exact remove_atomic. Qed.

(* the repaired defect, as a witness: with the old insertBefore a foster-parented node is lost on reparenting *)
Example c04_old_insertBefore_refuted :
  let s0 := [enew KRoot; enew (KElem None [97%N] []); enew (KElem None [116%N] []); enew (KElem None [105%N] []); enew KRoot] in
  let s1 := e_append 1 2 s0 in
  length (e_node 9 (fst (e_reparent 1 4 (fst (e_insert_before_old 1 3 2 s1)))) 4) = 1%nat /\
  length (e_node 9 (fst (e_reparent 1 4 (fst (e_insert_before 1 3 2 s1)))) 4) = 2%nat.
Proof. exact old_insertBefore_loses_node. Qed.
