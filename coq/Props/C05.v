(* C05 -- The result does not depend on how the input characters are delivered (stream layer). *)
From Coq Require Import NArith List Bool.
From Verif Require Import Sx Str Tok.
From Verif.Gen Require Import InputStream.
From Verif.Model Require Import C05.
From Verif.Proofs Require Import C05 C05pos C05until.
Import ListNotations.
Local Open Scope N_scope.

(* newline normalisation distributes over any cut that does not separate a CR from a following LF *)
Theorem c05_norm_app : forall a b, cut_ok a b -> norm (a ++ b) = norm a ++ norm b.
Proof. exact norm_app. Qed.

(* for EVERY character sequence and EVERY segmentation of it into non-empty reads -- one-character reads,
   CR LF and surrogate pairs split across reads included; the internal chunk size is just such a segmentation --
   the characters the tokenizer receives are exactly the newline-normalised input *)
Theorem c05_chars_segmentation_independent : forall reads,
  Forall (fun d => d <> []) reads ->
  drain (S (length (concat reads))) (init reads) = norm (concat reads).
Proof. exact chars_segmentation_independent. Qed.
Theorem c05_two_segmentations_agree : forall r1 r2,
  Forall (fun d => d <> []) r1 -> Forall (fun d => d <> []) r2 -> concat r1 = concat r2 ->
  drain (S (length (concat r1))) (init r1) = drain (S (length (concat r2))) (init r2).
Proof. exact two_segmentations_agree. Qed.

(* each refill either delivers a non-empty chunk and keeps "what is still to come" unchanged, or the input has
   ended; a chunk that consists only of a carried CR / lead surrogate is completed by exactly one more read *)
Theorem c05_refill : forall s, src_ok s ->
  let '(s1, ok) := rc s in
  src_ok s1 /\
  if ok then coff s1 = 0%nat /\ chunk s1 <> [] /\ chunk s1 ++ future s1 = future s
  else chunk s1 = [] /\ future s = [] /\ future s1 = [].
Proof. exact rc_spec. Qed.

(* POSITIONS: after k characters the stream reports the (line, column) that the first k newline-normalised
   characters determine -- 1 + the number of LF, the number of characters since the last LF -- for EVERY segmentation
   of the input into non-empty reads: error positions do not depend on how the characters are delivered *)
Theorem c05_position_segmentation_independent : forall reads k s,
  Forall (fun d => d <> []) reads -> iter_char k (init reads) = Some s ->
  position s = pos_of (firstn k (norm (concat reads))).
Proof. exact position_segmentation_independent. Qed.

(* ... and the same with charsUntil and the documented use of unget: after ANY sequence of char(), charsUntil() and
   peek (= char() followed by unget of the character just returned: SPeek) calls (run_sops, up to the first
   EOF from char(); the fuel is the one the executable entry point run_c05 gives charsUntil), for every
   segmentation, the characters delivered so far followed by what remains are the newline-normalised input --
   nothing is lost, repeated or reordered across chunk boundaries -- and position() is the (line, column) the
   delivered characters determine *)
Theorem c05_position_after_chars_and_runs : forall reads ops s d,
  Forall (fun r => r <> []) reads ->
  run_sops (4 + length (concat reads)) ops (init reads) = (s, d) ->
  norm (concat reads) = d ++ remaining s /\ position s = pos_of d.
Proof. exact position_after_chars_and_runs_entry. Qed.

(* PARTIAL: unget in general (several characters put back, across a chunk boundary, where it adjusts the counters by
   hand) is modelled (Model/C05.v) and tied to the real class by exact-agreement correspondence on client operation
   sequences, but positions after such uses are not covered by the theorems above (only the single put-back is); byte sources go through codecs decoders that are not modelled. *)

(* non-vacuity: "a\r\nb" delivered as "a\r" + "\n" + "b" and as single characters *)
Example c05_example :
  drain 9 (init [[97; 13]; [10]; [98]]) = [97; 10; 98] /\ drain 9 (init [[97]; [13]; [10]; [98]]) = [97; 10; 98] /\
  Forall (fun d : str => d <> []) [[97]; [13]; [10]; [98]].
Proof. split; [|split]; [vm_compute; reflexivity | vm_compute; reflexivity | repeat constructor; discriminate]. Qed.
(* "ab\r" + "\nc" + "d": a run of letters across the CR/LF cut, then the newline, then one character *)
Example c05_example_runs :
  let letters c := (97 <=? c) && (c <=? 122) in
  let '(s, d) := run_sops 9 [SPeek; SUntil letters; SPeek; SChar; SChar; SPeek] (init [[97; 98; 13]; [10; 99]; [100]]) in
  d = [97; 98; 10; 99] /\ position s = (2, 1)%nat /\ remaining s = [100].
Proof. vm_compute. repeat split. Qed.
