(* C10 -- Sanitized markup stays safe when it is parsed again (PARTIAL: the lexical half). *)
From Coq Require Import NArith List Bool Arith.
From Verif Require Import Sx Str Tok.
From Verif.Gen Require Import Consts Sanitizer Serializer.
From Verif.Model Require Import CharRef TokBase Ser C09 C10.
From Verif.Spec Require Import TokSpec.
From Verif.Proofs Require Import C09 C10 C08.
Import ListNotations.
Local Open Scope N_scope.

(* no element the default lists allow is written in raw-text mode *)
Theorem c10_allowed_elements_are_never_raw_text : forall ns name,
  element_allowed default_lists ns name = true -> mem_str name rcdataElements = false.
Proof. exact element_allowed_not_rcdata. Qed.

(* hence, for EVERY stream, options and css handling: after the sanitizer the token loop never enters raw-text
   mode -- it behaves exactly like the loop with that mode pinned off, where every Characters token is escaped *)
Theorem c10_sanitized_stream_is_always_escaped : forall o css ts,
  ser_loop o false (San default_lists css ts) = ser_escaping o (San default_lists css ts).
Proof. exact sanitized_stream_is_always_escaped. Qed.

(* a tag that is not allowed becomes text, and that text is written escaped ... *)
Theorem c10_disallowed_tag_is_escaped_text : forall o css ns name a,
  element_allowed default_lists ns name = false ->
  exists s, sanitize default_lists css (TStart ns name a) = Some (TChars s) /\
            ser_token o false (TChars s) = Some (false, Ser.escape s, []).
Proof. exact disallowed_start_is_escaped. Qed.

(* ... and escaped text is read back by the WHATWG tokenizer as text, whatever it contains and whatever follows
   (C08): a forbidden tag cannot reappear lexically *)
Theorem c10_escaped_text_stays_text : forall t rest c tm o cd b,
  exists j, sp_iter j (mk_tk dataState (Ser.escape t ++ rest) c tm o cd b)
            = Some (mk_tk dataState rest c tm (rev (singles t) ++ o) cd b).
Proof. exact text_roundtrip. Qed.

(* comments never reach the serializer *)
Theorem c10_no_comment_reaches_the_serializer : forall css s, sanitize default_lists css (TComment s) = None.
Proof. exact (sanitize_comment_dropped default_lists). Qed.

(* serialize() runs the sanitizer after attribute sorting and before optional-tag omission *)
Theorem c10_sanitizer_position :
  map snd filter_stack =
  [[105;110;106;101;99;116;95;109;101;116;97;95;99;104;97;114;115;101;116];
   [97;108;112;104;97;98;101;116;105;99;97;108;97;116;116;114;105;98;117;116;101;115];
   [119;104;105;116;101;115;112;97;99;101];
   [115;97;110;105;116;105;122;101;114];
   [111;112;116;105;111;110;97;108;116;97;103;115]].
Proof. exact sanitizer_position. Qed.

(* PARTIAL.  What is proved is lexical: nothing the sanitizer removed can come back as a tag, and text stays
   text.  That re-parsing cannot move an ALLOWED tag into a context where it means something else (namespace
   changes through integration points -- the mutation-XSS mechanism) is not provable without a model of tree
   construction; it is decided by the re-parse run (document + 11 fragment contexts, scripting on/off) with one
   listed finding of exactly that kind. *)
