(* C10 -- Sanitized markup stays safe when it is parsed again (PARTIAL: the lexical half). *)
From Coq Require Import NArith List Bool Arith.
From Verif Require Import Sx Str Tok.
From Verif.Gen Require Import Consts Sanitizer Serializer.
From Verif.Model Require Import CharRef TokBase Ser C09 C10.
From Verif.Spec Require Import TokSpec.
From Verif.Proofs Require Import C09 C10 C08 SpecTac C08tag C10lex C08units C10units.
Import ListNotations.
Local Open Scope N_scope.

(* no element the default lists allow is written in raw-text mode *)
Theorem c10_allowed_elements_are_never_raw_text : forall ns name,
  element_allowed default_lists ns name = true -> mem_str name rcdataElements = false.
Proof. exact element_allowed_not_rcdata. Qed.

(* hence, for EVERY stream, options and css handling: after the sanitizer the token loop never enters raw-text
   mode -- it behaves exactly like the loop with that mode pinned off, where every Characters token is escaped *)
Theorem c10_sanitized_stream_is_always_escaped : forall o css ts,
  ser_loop o false (San default_lists css ts) = ser_escaping o (San default_lists css ts).
Proof. exact sanitized_stream_is_always_escaped. Qed.

(* a tag that is not allowed becomes text, and that text is written escaped ... *)
Theorem c10_disallowed_tag_is_escaped_text : forall o css ns name a,
  element_allowed default_lists ns name = false ->
  exists s, sanitize default_lists css (TStart ns name a) = Some (TChars s) /\
            ser_token o false (TChars s) = Some (false, Ser.escape s, []).
Proof. exact disallowed_start_is_escaped. Qed.

(* ... and escaped text is read back by the WHATWG tokenizer as text, whatever it contains and whatever follows
   (C08): a forbidden tag cannot reappear lexically *)
Theorem c10_escaped_text_stays_text : forall t rest c tm o cd b,
  exists j, sp_iter j (mk_tk dataState (Ser.escape t ++ rest) c tm o cd b)
            = Some (mk_tk dataState rest c tm (rev (singles t) ++ o) cd b).
Proof. exact text_roundtrip. Qed.

(* THE LEXICAL HALF AS ONE THEOREM.  For EVERY stream a tree walker can produce (a doctype with a name and
   quotable identifiers, any element and attribute names, any attribute values, any text, comments), every option set whose quote character is U+0022 or U+0027:
   whatever HTMLSerializer(sanitize=True) writes (model san_ser = Ser after San with the default lists) is read
   back by the WHATWG tokenizer S_tok, from the data state, as exactly the sanitized stream -- nothing is
   re-interpreted: no character of any text or attribute value opens or closes a tag ... *)
Theorem c10_sanitized_output_reads_back : forall o, qc_ok o -> forall ts txt errs rest cu tm out cd,
  Forall walker_tok ts -> san_ser o ts = Some (txt, errs) ->
  exists j cu', sp_iter j (mk_tk dataState (txt ++ rest) cu tm out cd false)
                = Some (mk_tk dataState rest cu' tm (rev (flat_map (rd_tok o) (san_default ts)) ++ out) cd false).
Proof. exact sanitized_output_reads_back. Qed.

(* ... and every token read back is a character, or a tag whose name is on the element allow-list with
   attributes whose names are on the attribute allow-list (ASCII-lower-cased, as the tokenizer does) *)
Theorem c10_read_back_tokens_are_allowed : forall o css ts, Forall walker_tok ts ->
  Forall from_lists (flat_map (rd_tok o) (San default_lists css ts)).
Proof. exact read_back_tokens_are_allowed. Qed.

(* comments never reach the serializer *)
Theorem c10_no_comment_reaches_the_serializer : forall css s, sanitize default_lists css (TComment s) = None.
Proof. exact (sanitize_comment_dropped default_lists). Qed.

(* serialize() runs the sanitizer after attribute sorting and before optional-tag omission *)
Theorem c10_sanitizer_position :
  map snd filter_stack =
  [[105;110;106;101;99;116;95;109;101;116;97;95;99;104;97;114;115;101;116];
   [97;108;112;104;97;98;101;116;105;99;97;108;97;116;116;114;105;98;117;116;101;115];
   [119;104;105;116;101;115;112;97;99;101];
   [115;97;110;105;116;105;122;101;114];
   [111;112;116;105;111;110;97;108;116;97;103;115]].
Proof. exact sanitizer_position. Qed.

(* ... and the way a parser reads it: textarea (the one allowed element that switches the tokenizer: RCDATA) holds only
   text in a parsed tree.  For EVERY walker stream given as units -- tokens outside textarea, textarea elements with
   text -- the sanitized, serialized markup is read back, with the state switch after <textarea> made explicit
   (Proofs/C08units.v: reads), as exactly the sanitized units *)
Theorem c10_sanitized_units_read_back : forall o, qc_ok o -> forall us txt errs rest cu tm out0 cd,
  Forall wunit_ok us -> san_ser o (flat_map wflatten us) = Some (txt, errs) ->
  exists k', reads o (flat_map (san_unit (fun s => s)) us) (mk_tk dataState (txt ++ rest) cu tm out0 cd false) k' /\
             st k' = dataState /\ inp k' = rest /\
             out k' = rev (flat_map (rd_unit o) (flat_map (san_unit (fun s => s)) us)) ++ out0.
Proof. exact sanitized_units_read_back. Qed.

(* PARTIAL.  What is proved is lexical (token level): the sanitized output is re-tokenized into exactly the
   sanitized stream, so nothing the sanitizer removed can come back as a tag or attribute, and text stays text.  That re-parsing cannot move an ALLOWED tag into a context where it means something else (namespace
   changes through integration points -- the mutation-XSS mechanism) is not provable without a model of tree
   construction; it is decided by the re-parse run (document + 11 fragment contexts, scripting on/off) with one
   listed finding of exactly that kind. *)
