(* C20 -- XML-name coercion always yields legal names and is reversible. *)
From Coq Require Import NArith List Bool.
From Verif Require Import Sx Str Tok.
From Verif.Gen Require Import IHateXml.
From Verif.Model Require Import C20.
From Verif.Proofs Require Import C20 C20f C20o.
Import ListNotations.
Local Open Scope N_scope.

(* name_ok / first_ok: the XML 1.0 (4th ed.) NameChar (minus ':') and Letter|'_' productions, parsed from the
   text kept in _ihatexml.py; bad_rest / bad_first: the two compiled regexes.  bmp n: all code points < 0x10000. *)

(* within the BMP the regexes are exactly the complements of the productions *)
Theorem c20_regex_is_complement : forall c, c < 65536 ->
  bad_rest c = negb (name_ok c) /\ bad_first c = negb (first_ok c).
Proof. exact regex_is_complement. Qed.

(* every non-empty BMP name is coerced into NameStart NameChar*; the colon is always coerced *)
Theorem c20_toxml_legal : forall n, n <> [] -> bmp n ->
  exists c r, toXmlName n = Some (c :: r) /\ first_ok c = true /\ forallb name_ok (c :: r) = true.
Proof. exact toxml_legal. Qed.
Theorem c20_colon_is_coerced : bad_first 58 = true /\ bad_rest 58 = true.
Proof. exact colon_is_coerced. Qed.

(* names that are already legal (hence colon-free) are unchanged *)
Theorem c20_toxml_identity : forall c r, bmp (c :: r) -> first_ok c = true -> forallb name_ok r = true ->
  toXmlName (c :: r) = Some (c :: r).
Proof. exact toxml_identity. Qed.

(* reversibility for names without a U+hex escape pattern (nopat) -- for the code's own decoder: fromXmlName
   replaces the distinct findall matches one after another (str.replace) in the iteration order of a Python set;
   the model takes that order from the environment (Model/C20.v: fromXmlName order name, None when [order] is not
   an enumeration of the distinct matches) and the theorem holds for EVERY order: no replacement creates, destroys
   or overlaps an occurrence of another item, because every U+5 pattern of a partially decoded name that does not
   start at an escape would be a pattern of the original name.  c20_fromxml_toxml_lr is the same for the
   single-pass left-to-right decoder, and injectivity follows. *)
Theorem c20_fromxml_toxml : forall n r order, bmp n -> nopat n = true -> toXmlName n = Some r ->
  same_set order (dedup (findall r)) = true -> fromXmlName order r = Some n.
Proof. exact roundtrip_any_order. Qed.
Theorem c20_fromxml_toxml_lr : forall n r, bmp n -> nopat n = true ->
  toXmlName n = Some r -> fromXmlName_lr r = n.
Proof. exact roundtrip_lr. Qed.
Theorem c20_toxml_injective : forall n1 n2 r, bmp n1 -> bmp n2 -> nopat n1 = true -> nopat n2 = true ->
  toXmlName n1 = Some r -> toXmlName n2 = Some r -> n1 = n2.
Proof. exact toxml_injective. Qed.

(* the decoder's input side: on an encoded name, replacementRegexp.findall returns exactly the escapes the encoder
   wrote, in order -- nothing of the original name is mistaken for an escape -- and unescapeChar maps each of them
   back to the escaped character. *)
Theorem c20_findall_is_the_escapes : forall n r, bmp n -> nopat n = true -> toXmlName n = Some r ->
  findall r = match n with
              | [] => []
              | c :: n' => (if bad_first c then [esc c] else []) ++ map esc (filter bad_rest n')
              end.
Proof. exact findall_toxml. Qed.
Theorem c20_findall_items_decode : forall n r, bmp n -> nopat n = true -> toXmlName n = Some r ->
  Forall (fun item => exists c, c < 65536 /\ item = esc c /\ unesc5 (tl item) = c) (findall r).
Proof. exact findall_items_decode. Qed.

(* coerceCharacters: with the flag replaceFormFeedCharacters no form feed remains
   and only form feeds change (to a space); without the flag the data is unchanged *)
Theorem c20_characters_coerced : forall s,
  forallb (fun c => negb (c =? 12)) (coerceCharacters true s) = true /\
  length (coerceCharacters true s) = length s /\
  (forall i, nth i (coerceCharacters true s) 0 = if nth i s 0 =? 12 then 32 else nth i s 0) /\
  coerceCharacters false s = s.
Proof. exact characters_coerced. Qed.

(* comments: the replace loop terminates for every input (at most two passes remove every "--"),
   and with the flags the result has no "--" and does not end in "-" *)
Theorem c20_comment_coerced : forall e s,
  exists r, coerceComment true e s = Some r /\ contains dash2 r = false /\ ends_dash r = false.
Proof. exact comment_coerced_dd. Qed.
Theorem c20_comment_end_flag : forall s,
  exists r, coerceComment false true s = Some r /\ ends_dash r = false /\ (r = s \/ r = s ++ [32]).
Proof. exact comment_coerced_end. Qed.
Theorem c20_comment_untouched_without_flags : forall s, coerceComment false false s = Some s.
Proof. exact comment_untouched. Qed.

(* public identifiers: only PubidChars remain -- for ALL code points, not only the BMP *)
Theorem c20_pubid_coerced : forall sq s,
  forallb pubid_ok (coercePubid sq s) = true /\
  (sq = true -> forallb (fun x => negb (x =? 39)) (coercePubid sq s) = true).
Proof. exact pubid_coerced. Qed.

(* non-vacuity: "xlink:href" and "0a b" *)
Example c20_example :
  toXmlName [120;108;105;110;107;58;104;114;101;102] =
    Some [120;108;105;110;107;85;48;48;48;51;65;104;114;101;102] /\
  fromXmlName_lr [120;108;105;110;107;85;48;48;48;51;65;104;114;101;102] = [120;108;105;110;107;58;104;114;101;102] /\
  nopat [120;108;105;110;107;58;104;114;101;102] = true /\
  toXmlName [48; 97; 32; 98] = Some [85;48;48;48;51;48;97;85;48;48;48;50;48;98] /\
  findall [85;48;48;48;51;48;97;85;48;48;48;50;48;98] = [[85;48;48;48;51;48]; [85;48;48;48;50;48]] /\
  nopat [48; 97; 32; 98] = true /\
  coerceCharacters true [97; 12; 98] = [97; 32; 98] /\
  (* both iteration orders of the two-element set *)
  fromXmlName [[85;48;48;48;51;48]; [85;48;48;48;50;48]] [85;48;48;48;51;48;97;85;48;48;48;50;48;98] = Some [48; 97; 32; 98] /\
  fromXmlName [[85;48;48;48;50;48]; [85;48;48;48;51;48]] [85;48;48;48;51;48;97;85;48;48;48;50;48;98] = Some [48; 97; 32; 98].
Proof. repeat split; vm_compute; reflexivity. Qed.
