(* C17 -- The whitespace filter changes nothing but whitespace. *)
From Coq Require Import NArith List Bool Arith.
From Verif Require Import Sx Str Tok.
From Verif.Gen Require Import Whitespace Consts.
From Verif.Model Require Import C17.
From Verif.Proofs Require Import C17.
Import ListNotations.
Local Open Scope N_scope.

(* the regex class of the source is exactly ASCII whitespace; non-ASCII spaces are not in it *)
Theorem c17_class_is_ascii_whitespace : forall c, is_ws c = is_space c.
Proof. exact is_ws_is_space. Qed.

(* the preserve set is pre, textarea + the raw-text elements of constants.py *)
Theorem c17_preserve_set :
  forallb (fun n => mem_str n pre_textarea_rawtext) spacePreserveElements = true /\
  forallb (fun n => mem_str n spacePreserveElements) pre_textarea_rawtext = true.
Proof. exact preserve_set_is_pre_textarea_rawtext. Qed.

(* same number of tokens in the same order; every non-text token identical; every text token keeps
   exactly its non-whitespace characters, in order (for streams whose SpaceCharacters tokens are whitespace) *)
Theorem c17_structure : forall ts, Forall wf_tok ts -> Forall2 tok_rel ts (WS ts).
Proof. exact WS_structure. Qed.
Theorem c17_length : forall ts, length (WS ts) = length ts.
Proof. exact WS_length. Qed.

(* outside preserve regions: text collapsed -- no two adjacent whitespace characters, each one U+0020,
   and the substitution replaces each maximal run by one space (run-skipping equation) *)
Theorem c17_outside_chars : forall s, ws_step 0 (TChars s) = (0%nat, TChars (collapse s)).
Proof. exact ws_step_outside_chars. Qed.
Theorem c17_outside_space : forall c s, ws_step 0 (TSpace (c :: s)) = (0%nat, TSpace [32]).
Proof. exact ws_step_outside_space. Qed.
Theorem c17_collapsed_shape : forall s, well_collapsed false (collapse s) = true.
Proof. exact collapse_well. Qed.
Theorem c17_collapse_runs : forall c r,
  collapse (c :: r) = if is_ws c then 32 :: collapse (drop_while is_ws r) else c :: collapse r.
Proof. exact collapse_run_equation. Qed.
Theorem c17_collapse_keeps_nonspace : forall s, nonspace (collapse s) = nonspace s.
Proof. exact collapse_nonspace. Qed.

(* inside: untouched *)
Theorem c17_inside_untouched : forall p t, p <> 0%nat -> snd (ws_step p t) = t.
Proof. exact ws_step_inside. Qed.

(* the counter is positive exactly when an open element is in the preserve set *)
Theorem c17_counter_tracks_stack : forall st t,
  (match t with TEnd _ _ => st <> [] | _ => True end) ->
  fst (ws_step (depth_in st) t) = depth_in (stack_step st t).
Proof. exact ws_counter_step. Qed.
Theorem c17_counter_positive_iff_ancestor : forall st,
  (depth_in st <> 0)%nat <-> existsb preserved st = true.
Proof. exact depth_in_pos. Qed.

(* applying the filter twice equals applying it once *)
Theorem c17_idempotent : forall ts, WS (WS ts) = WS ts.
Proof. exact WS_idempotent. Qed.

(* non-vacuity: "<p>a \t b <pre> x  y</pre>" *)
Example c17_example :
  WS [TStart None [112] []; TChars [97; 32; 9; 98; 32]; TStart None [112;114;101] [];
      TChars [32; 120; 32; 32; 121]; TEnd None [112;114;101]; TSpace [10; 10]] =
     [TStart None [112] []; TChars [97; 32; 98; 32]; TStart None [112;114;101] [];
      TChars [32; 120; 32; 32; 121]; TEnd None [112;114;101]; TSpace [32]].
Proof. vm_compute. reflexivity. Qed.

(* REFUTED clause (known finding C17-run-split-across-text-tokens): a whitespace run that is split over
   adjacent text tokens -- the DOM tree builder makes one text node per tokenizer token -- yields one space
   per token.  Witness: the walker stream of "a &#32; b". *)
Definition text_of (ts : list token) : str :=
  concat (map (fun t => match t with TChars s | TSpace s => s | _ => [] end) ts).
Theorem c17_runs_across_tokens_refuted :
  exists ts, Forall wf_tok ts /\ well_collapsed false (text_of (WS ts)) = false.
Proof.
  exists [TChars [97]; TSpace [32]; TChars [32]; TSpace [32]; TChars [98]].
  split; [repeat constructor | vm_compute; reflexivity].
Qed.
