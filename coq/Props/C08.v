(* C08 -- Serializer output is lexically faithful or an error is reported (PARTIAL: the lexical layer). *)
From Coq Require Import NArith List Bool Arith.
From Verif Require Import Sx Str Tok.
From Verif.Model Require Import CharRef TokBase Ser.
From Verif.Spec Require Import TokSpec.
From Verif.Gen Require Import Consts.
From Verif.Proofs Require Import C08 SpecTac C08comment C08doctype C08tag C08raw C08units.
Import ListNotations.
Local Open Scope N_scope.

(* TEXT can never turn into markup.  For EVERY text t and EVERY continuation: what Ser writes for a Characters
   token outside raw-text elements, escape t, is read back by the WHATWG tokenizer (S_tok, data state) as
   exactly the characters of t, and the tokenizer is in the data state again in front of whatever follows. *)
Theorem c08_text_roundtrip : forall t rest c tm o cd b,
  exists j, sp_iter j (mk_tk dataState (escape t ++ rest) c tm o cd b)
            = Some (mk_tk dataState rest c tm (rev (singles t) ++ o) cd b).
Proof. exact text_roundtrip. Qed.

Theorem c08_ser_text_is_escape : forall o t, ser_token o false (TChars t) = Some (false, escape t, []).
Proof. reflexivity. Qed.

(* ATTRIBUTE VALUES can never end early.  For EVERY value v: whenever Ser quotes it (always when the mode is
   always, the value is empty, or it contains a character of the class of the mode) with a quote character that is
   U+0022 or U+0027, the text between the quotes is flat_map (escq q lt) v ... *)
Theorem c08_quoted_form : forall o v, needs_quote o v = true ->
  let v2 := if escape_lt o then replace_char 60 s_lt (replace_char 38 s_amp v) else replace_char 38 s_amp v in
  let q := if best_quote o then if has_char 39 v2 && negb (has_char 34 v2) then 34
                                else if has_char 34 v2 && negb (has_char 39 v2) then 39 else quote_char o
           else quote_char o in
  q = 34 \/ q = 39 ->
  ser_attr_value o v = [q] ++ flat_map (escq q (escape_lt o)) v ++ [q].
Proof. exact quoted_form. Qed.

(* ... and S_tok, in the double- resp. single-quoted attribute value state, reads that text back as exactly v
   (U+0000 as U+FFFD), takes the closing quote for the closing quote, and stands right behind it *)
Theorem c08_double_quoted_value : forall lt v rest e n a0 an av sc tm o cd b,
  exists j, sp_iter j (mk_tk attributeValueDoubleQuotedState (flat_map (escq 34 lt) v ++ 34 :: rest)
                             (CTag e n (a0 ++ [(an, av)]) sc) tm o cd b)
            = Some (mk_tk afterAttributeValueState rest (CTag e n (a0 ++ [(an, av ++ map nulfix v)]) sc) tm o cd b).
Proof. exact dq_value_roundtrip. Qed.

Theorem c08_single_quoted_value : forall lt v rest e n a0 an av sc tm o cd b,
  exists j, sp_iter j (mk_tk attributeValueSingleQuotedState (flat_map (escq 39 lt) v ++ 39 :: rest)
                             (CTag e n (a0 ++ [(an, av)]) sc) tm o cd b)
            = Some (mk_tk afterAttributeValueState rest (CTag e n (a0 ++ [(an, av ++ map nulfix v)]) sc) tm o cd b).
Proof. exact sq_value_roundtrip. Qed.

(* START TAGS.  Whatever the options (quoting mode always/spec/legacy, quote character, best-quote choice,
   minimised booleans, trailing solidus with or without space, escape_lt_in_attrs): the text Ser writes for a
   start tag -- name: a letter, then anything but whitespace, "/", ">", NUL; attribute names: non-empty, nothing
   of whitespace, "/", ">", "=", NUL; ANY values, quoted or not -- is read by S_tok from the data state as exactly
   one start tag: that name and those attribute names ASCII-lower-cased, in order, with those values (U+0000 as
   U+FFFD; a minimised boolean attribute reads as empty; of attributes whose written names coincide the first
   wins), self-closing iff Ser wrote the solidus (only for EmptyTag tokens of void elements, as repaired in /repo); and S_tok is back in the data state right behind the ">". *)
Theorem c08_start_tag_roundtrip : forall o (empty : bool) name (a : attrs) rest cu t out cd,
  qc_ok o -> tname_ok name = true -> forallb (fun x => aname_ok (snd (fst x))) a = true ->
  let sc := empty && mem_str name voidElements && solidus o in
  exists j, sp_iter j (mk_tk dataState (ser_start o empty name a ++ rest) cu t out cd false)
            = Some (mk_tk dataState rest (CTag false (lower_str name) (map (rd_attr o name) a) sc) t
                      (OStart (lower_str name) (first_wins [] (map (rd_attr o name) a)) sc :: out) cd false).
Proof. exact start_tag_roundtrip. Qed.

(* ... and none is dropped when the lower-cased attribute names are distinct *)
Theorem c08_distinct_names_all_kept : forall (l : pairs) seen,
  (forall x, In x l -> mem_str (fst x) seen = false) -> NoDup (map fst l) -> first_wins seen l = l.
Proof. exact first_wins_nodup. Qed.

Theorem c08_end_tag_roundtrip : forall name rest cu t out cd, tname_ok name = true ->
  exists j, sp_iter j (mk_tk dataState ([60; 47] ++ name ++ [62] ++ rest) cu t out cd false)
            = Some (mk_tk dataState rest (CTag true (lower_str name) [] false) t (OEnd (lower_str name) [] false :: out) cd false).
Proof. exact end_tag_roundtrip. Qed.

(* COMMENTS.  For EVERY comment text d that Ser writes without reporting an error -- no "--" inside, not starting
   with ">" or "->" ([c08_comment_errors] below: exactly the cases in which Ser's error list stays empty) -- the
   text "<!--" d "-->" is read back as exactly one comment with that text (a text ending in "-" included). *)
Theorem c08_comment_roundtrip : forall d rest cu t o cd,
  no_dd d = true -> starts_with [62] d = false -> starts_with [45; 62] d = false ->
  exists j, sp_iter j (mk_tk dataState ([60; 33; 45; 45] ++ d ++ [45; 45; 62] ++ rest) cu t o cd false)
            = Some (mk_tk dataState rest (CComment (map nulfix d)) t (OComment (map nulfix d) :: o) cd false).
Proof. exact comment_roundtrip. Qed.
Theorem c08_comment_errors : forall o d,
  ser_token o false (TComment d) = Some (false, [60; 33; 45; 45] ++ d ++ [45; 45; 62], []) ->
  no_dd d = true /\ starts_with [62] d = false /\ starts_with [45; 62] d = false.
Proof. exact ser_comment_ok. Qed.

(* DOCTYPES.  Name non-empty without whitespace and ">"; identifiers that Ser can quote (not both kinds of quote
   inside, otherwise it reports an error) and without ">": read back as exactly that doctype (name lower-cased,
   an empty identifier reads as absent, force-quirks off) whichever of the four shapes Ser writes. *)
Theorem c08_doctype_roundtrip : forall n pub sys rest cu t out cd,
  dname_ok n = true ->
  (nonempty pub = true -> id_ok (oget pub) = true) -> (nonempty sys = true -> id_ok (oget sys) = true) ->
  exists j, sp_iter j (mk_tk dataState (fst (ser_doctype (Some n) pub sys) ++ rest) cu t out cd false)
            = Some (mk_tk dataState rest (CDoctype (rdn n) (rd_id pub) (rd_id sys) true) t
                      (ODoctype (rdn n) (rd_id pub) (rd_id sys) true :: out) cd false).
Proof. exact doctype_roundtrip. Qed.

(* WHOLE STREAMS of doctype, comments, text, inter-element whitespace, start/empty tags and end tags in which no
   element is written in raw-text mode: if Ser accepts the stream, S_tok reads its output back as exactly the
   stream ([rd_tok]), token by token, ending in the data state. *)
Theorem c08_stream_roundtrip : forall o, qc_ok o -> forall ts txt errs rest cu tm out cd,
  Forall (safe_tok o) ts -> ser_loop o false ts = Some (txt, errs) ->
  exists j cu', sp_iter j (mk_tk dataState (txt ++ rest) cu tm out cd false)
                = Some (mk_tk dataState rest cu' tm (rev (flat_map (rd_tok o) ts) ++ out) cd false).
Proof. exact stream_roundtrip. Qed.

(* "... or an error is reported": for streams of that shape with ARBITRARY comment texts, an empty error list is
   enough -- the conditions on comments are exactly Ser reporting nothing *)
Theorem c08_stream_roundtrip_or_error : forall o, qc_ok o -> forall ts txt rest cu tm out cd,
  Forall (shape_tok o) ts -> ser_loop o false ts = Some (txt, []) ->
  exists j cu', sp_iter j (mk_tk dataState (txt ++ rest) cu tm out cd false)
                = Some (mk_tk dataState rest cu' tm (rev (flat_map (rd_tok o) ts) ++ out) cd false).
Proof. exact stream_roundtrip_no_errors. Qed.

(* RAW-TEXT elements (style, xmp, iframe, noembed, noframes), read in place in the RAWTEXT state with the element's
   start tag as the last start tag: text without "</" and without U+0000, written as it is, then the end tag, is read
   back as exactly that text and that end tag, and the tokenizer is in the data state in front of the rest *)
Theorem c08_rawtext_element_reads_back : forall name text rest a sc t o cd,
  name <> [] -> forallb is_alpha name = true -> raw_ok text = true ->
  exists j, sp_iter j (mk_tk rawtextState (text ++ [60; 47] ++ name ++ [62] ++ rest) (CTag false (lower_str name) a sc) t o cd false)
            = Some (mk_tk dataState rest (CTag true (lower_str name) [] false) name
                          (OEnd (lower_str name) [] false :: singles_r text ++ o) cd false).
Proof. exact rawtext_element_roundtrip. Qed.
(* ... "or an error is reported": when Ser reports nothing for the text token, that hypothesis holds *)
Theorem c08_rawtext_no_error_reads_back : forall o name text rest a sc t out cd,
  name <> [] -> forallb is_alpha name = true -> forallb (fun c => negb (c =? 0)) text = true ->
  ser_token o true (TChars text) = Some (true, text, []) ->
  exists j, sp_iter j (mk_tk rawtextState (text ++ [60; 47] ++ name ++ [62] ++ rest) (CTag false (lower_str name) a sc) t out cd false)
            = Some (mk_tk dataState rest (CTag true (lower_str name) [] false) name
                          (OEnd (lower_str name) [] false :: singles_r text ++ out) cd false).
Proof. exact rawtext_no_error_reads_back. Qed.
(* SCRIPT: the same in the script data state, as long as the text holds no "<!" either (script_ok) *)
Theorem c08_script_element_reads_back_partial : forall name text rest a sc t o cd,
  name <> [] -> forallb is_alpha name = true -> script_ok text = true ->
  exists j, sp_iter j (mk_tk scriptDataState (text ++ [60; 47] ++ name ++ [62] ++ rest) (CTag false (lower_str name) a sc) t o cd false)
            = Some (mk_tk dataState rest (CTag true (lower_str name) [] false) name
                          (OEnd (lower_str name) [] false :: singles_r text ++ o) cd false).
Proof. exact script_element_roundtrip. Qed.
(* ... and without that hypothesis the statement is FALSE: after the script text "<!--<script>" neither the end tag nor
   the "<p>" behind it is read back as a tag (known finding C08-script-comment-like-text: the serializer writes such a
   text without reporting an error) *)
Theorem c08_script_text_refuted :
  let k := mk_tk scriptDataState ([60;33;45;45;60;115;99;114;105;112;116;62] ++ [60;47;115;99;114;105;112;116;62] ++ [60;112;62;120])
                 (CTag false [115;99;114;105;112;116] [] false) [] [] false false in
  match sp_run 200 k with
  | Some k' => existsb (fun t => match t with OEnd _ _ _ => true | OStart _ _ _ => true | _ => false end) (out k')
  | None => true
  end = false.
Proof. exact script_swallows_its_end_tag. Qed.
(* RCDATA elements (title, textarea): ANY text without U+0000, written escaped, is read back exactly, then the end tag *)
Theorem c08_rcdata_element_reads_back : forall name text rest a sc t o cd,
  name <> [] -> forallb is_alpha name = true -> forallb (fun c => negb (c =? 0)) text = true ->
  exists j, sp_iter j (mk_tk rcdataState (escape text ++ [60; 47] ++ name ++ [62] ++ rest) (CTag false (lower_str name) a sc) t o cd false)
            = Some (mk_tk dataState rest (CTag true (lower_str name) [] false) name
                          (OEnd (lower_str name) [] false :: singles_r text ++ o) cd false).
Proof. exact rcdata_element_roundtrip. Qed.

(* WHOLE STREAMS WITH raw-text, RCDATA and script elements.  The tokenizer never leaves the data state by itself: the parser
   switches it after certain start tags.  [reads] (Proofs/C08units.v) spells that out -- after the start tag of style,
   xmp, iframe, noembed, noframes the tokenizer goes on in RAWTEXT, after title and textarea in RCDATA, after script in
   script data -- and for EVERY stream of safe tokens and such elements (text of raw-text elements without "</" and
   U+0000, of script also without "<!", ANY text without U+0000 in title/textarea) what Ser writes is read back unit by
   unit as exactly those tokens *)
Theorem c08_units_roundtrip : forall o, qc_ok o -> forall us txt errs rest cu tm out0 cd,
  Forall (unit_ok o) us -> ser_loop o false (flat_map flatten us) = Some (txt, errs) ->
  exists k', reads o us (mk_tk dataState (txt ++ rest) cu tm out0 cd false) k' /\
             st k' = dataState /\ inp k' = rest /\ out k' = rev (flat_map (rd_unit o) us) ++ out0 /\
             cdata_ok k' = cd /\ bad k' = false.
Proof. exact units_roundtrip. Qed.
Example c08_units_example :
  let o := mk_sopts 2 34 true true false true false false true in
  let us := [URc None s_title [] [97;60;98;38]; URaw None s_style [((None, [105;100]), [120])] [112;62;113;123;125;60];
             UTok (TChars [120])] in
  qc_ok o /\ Forall (unit_ok o) us /\
  ser_loop o false (flat_map flatten us) =
  Some ([60;116;105;116;108;101;62; 97;38;108;116;59;98;38;97;109;112;59; 60;47;116;105;116;108;101;62;
         60;115;116;121;108;101;32;105;100;61;120;62; 112;62;113;123;125;60; 60;47;115;116;121;108;101;62; 120], []).
Proof. split; [left; reflexivity|]. split; [repeat constructor|]. vm_compute. reflexivity. Qed.

(* non-vacuity of the stream theorem: <a href=x&amp;y hidden="">1 &lt; 2</a> with the default options *)
Example c08_stream_example :
  let o := mk_sopts 2 34 true true false true false false true in
  let ts := [TStart None [97] [((None, [104;114;101;102]), [120;38;121]); ((None, [104;105;100;100;101;110]), [])];
             TChars [49;32;60;32;50]; TEnd None [97]] in
  qc_ok o /\ Forall (safe_tok o) ts /\
  ser_loop o false ts = Some ([60;97;32;104;114;101;102;61;120;38;97;109;112;59;121;32;104;105;100;100;101;110;61;34;34;62;
                               49;32;38;108;116;59;32;50;60;47;97;62], []).
Proof. split; [left; reflexivity|]. split; [repeat constructor|]. vm_compute. reflexivity. Qed.

(* non-vacuity *)
Example c08_example :
  escape [49;60;50;38;34] = [49;38;108;116;59;50;38;97;109;112;59;34] /\
  ser_attr_value (mk_sopts 2 34 true true false true false false true) [97;34;38] = [39;97;34;38;97;109;112;59;39].
Proof. split; vm_compute; reflexivity. Qed.

(* PARTIAL.  Proved: text, quoted and unquoted values, tag and attribute names, start and end tags, comments,
   doctypes, and the lift to whole streams of these without raw-text elements.  and, element by element, the content and end tag of raw-text, script (without "<!") and RCDATA elements read in
   the state the parser switches to.  and the lift of raw-text and RCDATA elements to whole streams with the parser's state switches made
   explicit (c08_units_roundtrip).  Not proved: script text containing "<!"
   (refuted in general, see above), entity tokens, identifiers containing ">"; these are decided on every run by
   re-tokenizing the real serializer's output with S_tok (extracted) for generated trees x options -- a test,
   with seven listed findings.  Ser itself is a hand model tied to the code by the correspondence run. *)
