(* C08 -- Serializer output is lexically faithful or an error is reported (PARTIAL: the lexical layer). *)
From Coq Require Import NArith List Bool Arith.
From Verif Require Import Sx Str Tok.
From Verif.Model Require Import CharRef TokBase Ser.
From Verif.Spec Require Import TokSpec.
From Verif.Proofs Require Import C08.
Import ListNotations.
Local Open Scope N_scope.

(* TEXT can never turn into markup.  For EVERY text t and EVERY continuation: what Ser writes for a Characters
   token outside raw-text elements, escape t, is read back by the WHATWG tokenizer (S_tok, data state) as
   exactly the characters of t, and the tokenizer is in the data state again in front of whatever follows. *)
Theorem c08_text_roundtrip : forall t rest c tm o cd b,
  exists j, sp_iter j (mk_tk dataState (escape t ++ rest) c tm o cd b)
            = Some (mk_tk dataState rest c tm (rev (singles t) ++ o) cd b).
Proof. exact text_roundtrip. Qed.

Theorem c08_ser_text_is_escape : forall o t, ser_token o false (TChars t) = Some (false, escape t, []).
Proof. reflexivity. Qed.

(* ATTRIBUTE VALUES can never end early.  For EVERY value v: whenever Ser quotes it (always when the mode is
   always, the value is empty, or it contains a character of the class of the mode) with a quote character that is
   U+0022 or U+0027, the text between the quotes is flat_map (escq q lt) v ... *)
Theorem c08_quoted_form : forall o v, needs_quote o v = true ->
  let v2 := if escape_lt o then replace_char 60 s_lt (replace_char 38 s_amp v) else replace_char 38 s_amp v in
  let q := if best_quote o then if has_char 39 v2 && negb (has_char 34 v2) then 34
                                else if has_char 34 v2 && negb (has_char 39 v2) then 39 else quote_char o
           else quote_char o in
  q = 34 \/ q = 39 ->
  ser_attr_value o v = [q] ++ flat_map (escq q (escape_lt o)) v ++ [q].
Proof. exact quoted_form. Qed.

(* ... and S_tok, in the double- resp. single-quoted attribute value state, reads that text back as exactly v
   (U+0000 as U+FFFD), takes the closing quote for the closing quote, and stands right behind it *)
Theorem c08_double_quoted_value : forall lt v rest e n a0 an av sc tm o cd b,
  exists j, sp_iter j (mk_tk attributeValueDoubleQuotedState (flat_map (escq 34 lt) v ++ 34 :: rest)
                             (CTag e n (a0 ++ [(an, av)]) sc) tm o cd b)
            = Some (mk_tk afterAttributeValueState rest (CTag e n (a0 ++ [(an, av ++ map nulfix v)]) sc) tm o cd b).
Proof. exact dq_value_roundtrip. Qed.

Theorem c08_single_quoted_value : forall lt v rest e n a0 an av sc tm o cd b,
  exists j, sp_iter j (mk_tk attributeValueSingleQuotedState (flat_map (escq 39 lt) v ++ 39 :: rest)
                             (CTag e n (a0 ++ [(an, av)]) sc) tm o cd b)
            = Some (mk_tk afterAttributeValueState rest (CTag e n (a0 ++ [(an, av ++ map nulfix v)]) sc) tm o cd b).
Proof. exact sq_value_roundtrip. Qed.

(* non-vacuity *)
Example c08_example :
  escape [49;60;50;38;34] = [49;38;108;116;59;50;38;97;109;112;59;34] /\
  ser_attr_value (mk_sopts 2 34 true true false true false false true) [97;34;38] = [39;97;34;38;97;109;112;59;39].
Proof. split; vm_compute; reflexivity. Qed.

(* PARTIAL.  Proved: the two lexical contexts through which text could become markup.  Not proved: unquoted
   values, tag and attribute names, comments, doctypes, raw-text elements and the lift to whole streams
   (errors = [] -> retok (Ser ts) = ts); these are decided on every run by re-tokenizing the real serializer's
   output with S_tok (extracted) for generated trees x options -- a test, with seven listed findings. *)
