Definition placeholder_c08 := 0.
