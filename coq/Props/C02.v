(* C02 -- Tokenizer output equals the WHATWG tokenization (PARTIAL: see the end of this file). *)
From Coq Require Import NArith List Bool Arith.
From Verif Require Import Sx Str.
From Verif.Gen Require Import Tokenizer.
From Verif.Model Require Import TokBase TokHand C02.
From Verif.Spec Require Import TokSpec.
From Verif.Proofs Require Import C02a C02b C02dict.
Import ListNotations.
Local Open Scope N_scope.

(* The model M_tok (Gen/Tokenizer.v, regenerated from _tokenizer.py on every run + Model/TokHand.v) makes
   progress in EVERY state on EVERY input: a step either shortens the remaining input or keeps it and moves to a
   state of strictly smaller rank ... *)
Theorem c02_every_step_makes_progress : forall k k',
  step k = (k', true) ->
  (length (inp k') < length (inp k))%nat \/
  (length (inp k') = length (inp k) /\ (rank (st k') < rank (st k))%nat).
Proof. intros k k' H. pose proof (step_ok k) as Hok. rewrite H in Hok. exact (Hok eq_refl). Qed.

(* ... hence the main loop  `while self.state(): ...`  terminates from every state, with every current token,
   temporary buffer and input, within 4*|input|+8 state calls (no input makes the tokenizer loop) *)
Theorem c02_tokenizer_terminates : forall s c t cd i, tokenize s c t cd i <> None.
Proof. exact tokenize_total. Qed.

(* emitCurrentToken's dict(raw) / update(raw[::-1]) trick is the standard's duplicate-attribute rule for EVERY
   attribute list: each name keeps its first value, names stay in order of first occurrence *)
Theorem c02_first_duplicate_wins : forall raw, py_attr_dict raw = first_wins [] raw.
Proof. exact py_attr_dict_first_wins. Qed.

(* non-vacuity, and the two machines side by side: <a B=1 b=2 c>x</A >&amp;<!--y--> in the data state *)
Example c02_example :
  let i := [60;97;32;66;61;49;32;98;61;50;32;99;62;120;60;47;65;32;62;38;97;109;112;59;60;33;45;45;121;45;45;62] in
  option_map (fun k => coalesce (flat (rev (out k)))) (tokenize dataState CNone [] false i) =
  option_map (fun k => coalesce (flat (rev (out k)))) (sp_tokenize dataState CNone [] false i) /\
  option_map (fun k => coalesce (flat (rev (out k)))) (tokenize dataState CNone [] false i) =
  Some [OStart [97] [([98], [49]); ([99], [])] false; OChars [120]; OEnd [97] [] false; OChars [38];
        OComment [121]].
Proof. vm_compute. split; reflexivity. Qed.

(* PARTIAL.  The refinement theorem "flat (run M_tok) = run S_tok for every input and start configuration"
   (Spec/TokSpec.v is the WHATWG machine) is not proved yet; until it is, the equality of the two machines is
   decided by running both (and the implementation) on generated inputs on every check -- a test, not a proof. *)
