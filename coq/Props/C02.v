(* C02 -- Tokenizer output equals the WHATWG tokenization (PARTIAL: see the end of this file). *)
From Coq Require Import NArith List Bool Arith.
From Verif Require Import Sx Str.
From Verif.Gen Require Import Tokenizer.
From Verif.Model Require Import TokBase TokHand C02.
From Verif.Spec Require Import TokSpec.
From Verif.Proofs Require Import C02a C02b C02dict C02sim C02simtac C02cdata C02simmain.
Import ListNotations.
Local Open Scope N_scope.

(* The model M_tok (Gen/Tokenizer.v, regenerated from _tokenizer.py on every run + Model/TokHand.v) makes
   progress in EVERY state on EVERY input: a step either shortens the remaining input or keeps it and moves to a
   state of strictly smaller rank ... *)
Theorem c02_every_step_makes_progress : forall k k',
  step k = (k', true) ->
  (length (inp k') < length (inp k))%nat \/
  (length (inp k') = length (inp k) /\ (rank (st k') < rank (st k))%nat).
Proof. intros k k' H. pose proof (step_ok k) as Hok. rewrite H in Hok. exact (Hok eq_refl). Qed.

(* ... hence the main loop  `while self.state(): ...`  terminates from every state, with every current token,
   temporary buffer and input, within 4*|input|+8 state calls (no input makes the tokenizer loop) *)
Theorem c02_tokenizer_terminates : forall s c t cd i, tokenize s c t cd i <> None.
Proof. exact tokenize_total. Qed.

(* emitCurrentToken's dict(raw) / update(raw[::-1]) trick is the standard's duplicate-attribute rule for EVERY
   attribute list: each name keeps its first value, names stay in order of first occurrence *)
Theorem c02_first_duplicate_wins : forall raw, py_attr_dict raw = first_wins [] raw.
Proof. exact py_attr_dict_first_wins. Qed.

(* non-vacuity, and the two machines side by side: <a B=1 b=2 c>x</A >&amp;<!--y--> in the data state *)
Example c02_example :
  let i := [60;97;32;66;61;49;32;98;61;50;32;99;62;120;60;47;65;32;62;38;97;109;112;59;60;33;45;45;121;45;45;62] in
  option_map (fun k => coalesce (flat (rev (out k)))) (tokenize dataState CNone [] false i) =
  option_map (fun k => coalesce (flat (rev (out k)))) (sp_tokenize dataState CNone [] false i) /\
  option_map (fun k => coalesce (flat (rev (out k)))) (tokenize dataState CNone [] false i) =
  Some [OStart [97] [([98], [49]); ([99], [])] false; OChars [120]; OEnd [97] [] false; OChars [38];
        OComment [121]].
Proof. vm_compute. split; reflexivity. Qed.

(* REFINEMENT.  From each of the five start states, with any temporary buffer (last start tag name), CDATA
   allowed or not, and ANY input: if the run of M_tok never enters a CDATA section ([covered], Proofs/C02simmain.v:
   every state but cdataSectionState -- reachable only from "<![CDATA[" when the tree builder allows it), then
   it is a run of the model's main loop, S_tok -- the per-character WHATWG machine of Spec/TokSpec.v -- also
   terminates, its result is unique, and its token stream is M_tok's with parse errors dropped and character
   tokens split into single characters ([flat]); both stop in the same state at the same input position
   ([sst]/[sinp]: html5lib's two extra character-reference states stand for data/RCDATA before the "&").
   Character references are included: consumeEntity is related to the standard's rules by Proofs/C02charref.v
   on top of C14's longest-match and numeric theorems.  No bound on the input or on the number of steps: the
   proof is a simulation, one lemma per state method (Proofs/C02sim_*.v), re-checked against the regenerated
   Gen/Tokenizer.v on every run. *)
Theorem c02_refines_whatwg : forall s0 t cd i n mf,
  start_state s0 = true ->
  run_cov n (init_tk s0 CNone t cd i) = Some mf ->
  run_loop n (init_tk s0 CNone t cd i) = Some mf /\
  exists n' sf, sp_run n' (init_tk s0 CNone t cd i) = Some sf /\
                (forall n'' sf', sp_run n'' (init_tk s0 CNone t cd i) = Some sf' -> sf' = sf) /\
                rev (out sf) = flat (rev (out mf)) /\ inp sf = sinp mf /\ st sf = sst mf.
Proof. exact tokenizer_refines_whatwg. Qed.

(* THE PROPERTY, for CDATA sections not allowed (the configuration of every HTML-namespace context): for EVERY
   input, every one of the five start states and every last-start-tag name the model's tokenizer terminates,
   and the WHATWG machine terminates with the same token stream (parse errors dropped, character tokens split),
   at the same input position in the same state.  No premise about the run is left. *)
Theorem c02_equals_whatwg_when_cdata_not_allowed : forall s0 t i,
  start_state s0 = true ->
  exists mf n' sf,
    tokenize s0 CNone t false i = Some mf /\
    sp_run n' (init_tk s0 CNone t false i) = Some sf /\
    (forall n'' sf', sp_run n'' (init_tk s0 CNone t false i) = Some sf' -> sf' = sf) /\
    rev (out sf) = flat (rev (out mf)) /\ inp sf = sinp mf /\ st sf = sst mf.
Proof. exact tokenizer_equals_whatwg_no_cdata. Qed.

(* CDATA SECTIONS ALLOWED.  The same for every run that does not meet U+0000 inside a CDATA section
   ([covered_cdata]: html5lib's one-step scan for "]]>" is proved equal to the first occurrence of "]]>", and to
   S_tok's three CDATA states, Proofs/C02cdata.v; with a U+0000 in the section html5lib emits U+FFFD and an error
   where the standard's tokenizer emits U+0000 -- the recorded finding, and the only thing left out). *)
Theorem c02_refines_whatwg_with_cdata : forall s0 t cd i n mf,
  start_state s0 = true ->
  run_cov_cdata n (init_tk s0 CNone t cd i) = Some mf ->
  run_loop n (init_tk s0 CNone t cd i) = Some mf /\
  exists n' sf, sp_run n' (init_tk s0 CNone t cd i) = Some sf /\
                (forall n'' sf', sp_run n'' (init_tk s0 CNone t cd i) = Some sf' -> sf' = sf) /\
                rev (out sf) = flat (rev (out mf)) /\ inp sf = sinp mf /\ st sf = sst mf.
Proof. exact tokenizer_refines_whatwg_cdata. Qed.

(* html5lib's CDATA scan finds exactly the first "]]>" (or takes everything when there is none), for every input *)
Theorem c02_cdata_scan_is_first_terminator : forall fuel acc i, (length i <= fuel)%nat ->
  cdata_loop fuel acc i = (acc ++ fst (csplit i), snd (csplit i)).
Proof. exact cdata_loop_is_csplit. Qed.

(* the same from ANY related pair of configurations (mid-run, any state, any current token of the right kind) *)
Theorem c02_refinement_from_any_configuration : forall n m s mf,
  R m s -> wk m = true -> run_cov n m = Some mf ->
  exists n' sf, sp_run n' s = Some sf /\ R mf sf /\ wk mf = true.
Proof. exact refinement. Qed.

(* non-vacuity: the covered run exists for a document with a doctype, tags with attributes (duplicates,
   upper case, all three value syntaxes), a comment, a bogus comment, RCDATA-like text and an end tag *)
Example c02_refinement_example :
  let i := [60;33;68;79;67;84;89;80;69;32;104;116;109;108;32;80;85;66;76;73;67;32;34;120;34;62;
            60;97;32;66;61;49;32;98;61;39;50;39;32;99;61;34;51;34;32;100;47;62;120;60;47;65;32;62;38;97;109;112;59;38;35;120;52;49;59;60;97;32;104;61;38;108;116;62;
            60;33;45;45;121;45;45;62;60;63;112;105;62;60;33;91;67;68;65;84;65;91;122;93;93;62] in
  match run_cov (fuel_for i) (init_tk dataState CNone [] false i) with
  | Some mf => inp mf = [] /\ length (out mf) = 14%nat
  | None => False
  end.
Proof. vm_compute. split; reflexivity. Qed.

(* PARTIAL.  Left out of the theorems: a U+0000 inside a CDATA section (recorded finding).  The glue between the
   model and the Python source (the translator's statement vocabulary, the hand-modelled methods, the input
   stream) is decided by running the model and the implementation on generated inputs on every check, and S_tok is
   a transcription of the standard -- a test and a trusted text, not proofs. *)
