(* C02 -- placeholder until the theorems are in *)
Definition placeholder_c02 := 0.
