(* C13 -- The optional-tags filter removes only tags HTML allows to be omitted. *)
From Coq Require Import NArith List Bool String.
From Verif Require Import Sx Str Tok DT.
From Verif.Gen Require Import OptionalTags.
From Verif.Spec Require Import Lit OptionalTags.
From Verif.Model Require Import C13.
From Verif.Proofs Require Import C13.
Import ListNotations.
Local Open Scope N_scope.

(* the filter only ever removes tokens: the output is a subsequence of the input, every emitted token
   identical to the input token and in order -- it is exactly the tokens whose keep flag is set *)
Theorem c13_subsequence : forall ts, Subseq (OT ts) ts.
Proof. exact OT_subseq. Qed.
Theorem c13_output_is_kept_tokens : forall ts prev, ot_go prev ts = select (ot_flags prev ts) ts.
Proof. exact ot_go_select. Qed.

(* every removed token is an attribute-less start tag or an end tag of one of the 18 listed elements --
   for EVERY element name (finite check over the literals of the translated rules + fresh names, lifted
   to all names by Proofs/DTp.v: implies2 / implies3) *)
Theorem c13_removed_shape : forall prev t next, keep prev t next = false -> removed_shape t.
Proof. exact removed_has_shape. Qed.

(* every omission is one the HTML syntax allows in that position (Spec/OptionalTags.v), except the recorded
   deviations [known_exceptions_end] (</p> before datagrid/dialog/dir, </tfoot> before <tbody>) *)
Theorem c13_rules_sound_partial : forall prev t next, keep prev t next = false -> syntax_allows prev t next = true.
Proof. exact removed_is_allowed. Qed.

(* colgroup start tag side condition: the end tag of an immediately preceding colgroup is never omitted *)
Theorem c13_colgroup_side_condition : forall ns a,
  is_optional_end (S "colgroup") (Some (TStart ns (S "colgroup") a)) = false.
Proof. exact colgroup_end_kept_before_colgroup. Qed.

(* REFUTED clauses -- known findings, enforced by the upstream fixtures (optionaltags.test) *)
Theorem c13_p_before_dialog_refuted :
  exists t next, keep None t next = false /\
    match t with TEnd _ n => peval spec_end n None (view_of next) = false | _ => False end.
Proof.
  exists (TEnd None (S "p")), (Some (TStart None (S "dialog") [])). split; vm_compute; reflexivity.
Qed.
Theorem c13_tfoot_before_tbody_refuted :
  exists t next, keep None t next = false /\
    match t with TEnd _ n => peval spec_end n None (view_of next) = false | _ => False end.
Proof.
  exists (TEnd None (S "tfoot")), (Some (TStart None (S "tbody") [])). split; vm_compute; reflexivity.
Qed.

(* non-vacuity: <html><head></head><body><p>x</p><div></div></body></html> loses seven tags *)
Example c13_example :
  OT [TStart None (S "html") []; TStart None (S "head") []; TEnd None (S "head"); TStart None (S "body") [];
      TStart None (S "p") []; TChars (S "x"); TEnd None (S "p"); TStart None (S "div") []; TEnd None (S "div");
      TEnd None (S "body"); TEnd None (S "html")] =
     [TStart None (S "p") []; TChars (S "x"); TStart None (S "div") []; TEnd None (S "div")].
Proof. vm_compute. reflexivity. Qed.
