(* C18 -- Alphabetical-attributes filter only reorders, deterministically.
   Property theorems only; each is closed by [exact] of a lemma in Proofs/C18.v. *)
From Coq Require Import NArith List Bool Permutation Sorted.
From Verif Require Import Sx Str Tok.
From Verif.Gen Require Import AlphaAttrs.
From Verif.Model Require Import C18.
From Verif.Proofs Require Import C18.
Import ListNotations.

(* An attribute dict has distinct (namespace, name) keys: [NoDup (map fst a)]. *)

(* nothing lost, merged or altered *)
Theorem c18_permutation : forall a, NoDup (map fst a) -> Permutation (aa_attrs a) a.
Proof. exact aa_attrs_permutation. Qed.

(* ordered by (namespace or "", local name) *)
Theorem c18_sorted : forall a, NoDup (map fst a) ->
  StronglySorted (fun x y => key_leb (attr_key x) (attr_key y) = true) (aa_attrs a).
Proof. exact aa_attrs_sorted. Qed.

(* independent of the incoming order whenever the sort key separates the attributes *)
Theorem c18_order_independent : forall a b,
  NoDup (map attr_key a) -> NoDup (map fst a) -> Permutation a b -> aa_attrs a = aa_attrs b.
Proof. exact aa_attrs_order_independent. Qed.

(* the sort key separates any two attributes unless one carries the namespace "" *)
Theorem c18_key_injective : forall a b : attr,
  fst (fst a) <> Some [] -> fst (fst b) <> Some [] -> attr_key a = attr_key b -> fst a = fst b.
Proof. exact attr_key_inj_on. Qed.

(* all other tokens untouched, order and number of tokens kept *)
Theorem c18_others_untouched : forall t, is_tag t = false -> aa_token t = t.
Proof. exact aa_others_untouched. Qed.
Theorem c18_pointwise : forall ts i d, nth i (AA ts) (aa_token d) = aa_token (nth i ts d).
Proof. exact AA_pointwise. Qed.
Theorem c18_length : forall ts, length (AA ts) = length ts.
Proof. exact AA_length. Qed.

(* non-vacuity: href / xlink:href / xml:lang share local names across namespaces *)
Example c18_example :
  let xl := Some [120;108]%N in let xm := Some [120;109]%N in
  let a := [((xm, [108]%N), [49]%N); ((None, [104]%N), [50]%N); ((xl, [104]%N), [51]%N)] in
  NoDup (map fst a) /\ NoDup (map attr_key a) /\
  aa_attrs a = [((None, [104]%N), [50]%N); ((xl, [104]%N), [51]%N); ((xm, [108]%N), [49]%N)].
Proof.
  cbv zeta. split; [|split]; [| |vm_compute; reflexivity];
  repeat constructor; cbn; intuition discriminate.
Qed.
