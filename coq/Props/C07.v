Definition placeholder_c07 := 0.
