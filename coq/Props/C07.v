(* C07 -- Serialize then parse is the identity on conforming documents (PARTIAL: what each stage may change). *)
From Coq Require Import NArith List Bool Permutation.
From Verif Require Import Sx Str Tok.
From Verif.Gen Require Import Serializer.
From Verif.Model Require Import CharRef TokBase Ser C13 C18 C07.
From Verif.Spec Require Import TokSpec.
From Verif.Proofs Require Import C13 C18 C07 C08.
Import ListNotations.
Local Open Scope N_scope.

(* the pipeline model is the token loop applied to the filtered stream, and serialize() stacks the filters in
   this order (translator fact, re-derived from the source on every run): attribute sorting before
   sanitizing before optional-tag omission *)
Theorem c07_pipeline_shape : forall o alpha omit ts, pipeline o alpha omit ts = Ser o (fed alpha omit ts).
Proof. exact pipeline_is_ser_of_fed. Qed.
Theorem c07_filter_order :
  map snd filter_stack =
  [[105;110;106;101;99;116;95;109;101;116;97;95;99;104;97;114;115;101;116];
   [97;108;112;104;97;98;101;116;105;99;97;108;97;116;116;114;105;98;117;116;101;115];
   [119;104;105;116;101;115;112;97;99;101];
   [115;97;110;105;116;105;122;101;114];
   [111;112;116;105;111;110;97;108;116;97;103;115]].
Proof. exact stack_order. Qed.

(* OMISSION only ever removes tokens (for every stream and every option set nothing is added, altered or
   reordered), every removed token is an attribute-less start tag or an end tag of the elements whose tags are
   optional, and it is removed only where the HTML syntax allows the omission (C13's theorems) *)
Theorem c07_omission_only_removes : forall alpha omit ts,
  Subseq (fed alpha omit ts) (if alpha then AA ts else ts).
Proof. exact fed_subseq. Qed.

(* SORTING keeps every attribute with its value: the attribute map the reader rebuilds is the same *)
Theorem c07_sorting_keeps_attribute_map : forall a, NoDup (map fst a) -> Permutation (aa_attrs a) a.
Proof. exact aa_attrs_permutation. Qed.

(* QUOTING MODE, QUOTE CHARACTER, escape_lt_in_attrs are invisible to the reader: for every value, with either
   quote character and either setting of escape_lt, the quoted form is read back as the same value *)
Theorem c07_quoting_options_invisible : forall lt v rest e n a0 an av sc tm o cd b,
  (exists j, sp_iter j (mk_tk attributeValueDoubleQuotedState (flat_map (escq 34 lt) v ++ 34 :: rest)
                              (CTag e n (a0 ++ [(an, av)]) sc) tm o cd b)
             = Some (mk_tk afterAttributeValueState rest (CTag e n (a0 ++ [(an, av ++ map nulfix v)]) sc) tm o cd b)) /\
  (exists j, sp_iter j (mk_tk attributeValueSingleQuotedState (flat_map (escq 39 lt) v ++ 39 :: rest)
                              (CTag e n (a0 ++ [(an, av)]) sc) tm o cd b)
             = Some (mk_tk afterAttributeValueState rest (CTag e n (a0 ++ [(an, av ++ map nulfix v)]) sc) tm o cd b)).
Proof. exact quoting_invisible. Qed.

(* PARTIAL.  The tree-construction half of the round trip ("the omitted tags are re-implied by the parser, the
   text lands in the same place") is not a theorem: it is decided on every run by generating conforming trees
   from a content-model grammar, serializing them under random option sets with both walkers and parsing the
   result again; three listed findings (leading newline in pre/textarea, boolean attribute values, xlink). *)
