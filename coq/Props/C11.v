(* C11 -- Tree walkers emit a well-formed stream that reproduces the tree. *)
From Coq Require Import NArith List Bool.
From Verif Require Import Sx Str Tok Tree.
From Verif.Gen Require Import Consts Sax.
From Verif.Model Require Import C11.
From Verif.Proofs Require Import C11 C11e.
Import ListNotations.
Local Open Scope N_scope.

(* walk (Base/Tree.v) is the specification: the recursive definition of what a walker must emit. *)

(* the generic non-recursive traversal of treewalkers/base.py, driven by firstChild / nextSibling / parentNode
   (a zipper over the tree: the DOM walker), emits exactly walk t -- for EVERY tree, from an element ... *)
Theorem c11_nrw_element_correct : forall t,
  walk_node_nrw (2 * size t + 4) t = Some (walk voidElements html_ns t).
Proof. exact nrw_node_correct. Qed.
(* ... and from a document or fragment (comments/doctype at document level, text around every node) *)
Theorem c11_nrw_document_correct : forall kids,
  walk_doc_nrw (2 * fsize kids + 4) kids = Some (walk_all voidElements html_ns kids).
Proof. exact nrw_doc_correct. Qed.

(* text is split only into whitespace and non-whitespace runs: at most three tokens, their concatenation is
   the text, the outer ones are pure ASCII whitespace, the middle one neither starts nor ends with whitespace,
   no token is empty *)
Theorem c11_text_split : forall s,
  exists l m r,
    text_tokens s = optS l ++ optC m ++ optS r /\ l ++ m ++ r = s /\
    forallb is_space l = true /\ forallb is_space r = true /\
    match m with [] => True | c :: _ => is_space c = false /\ is_space (last m 0) = false end.
Proof. exact text_tokens_spec. Qed.
Theorem c11_text_concat : forall s, concat (map tok_text (text_tokens s)) = s.
Proof. exact text_tokens_concat. Qed.

(* void HTML elements appear as empty tags and never as start or end tags -- any tree *)
Theorem c11_void_only_empty : forall t, forallb no_void_tag (walk voidElements html_ns t) = true.
Proof. exact walk_void_only_empty. Qed.

(* the Lint filter accepts the stream (balanced tags, non-empty names, well-typed text tokens) of every forest
   whose names are non-empty, namespaces are not "", and void elements are childless *)
Theorem c11_lint_accepts : forall kids, forallb good kids = true ->
  lint [] (walk_all voidElements html_ns kids) = true.
Proof. exact lint_accepts_walk. Qed.

(* rebuilding a tree from the stream gives back the walked forest (adjacent text concatenated) *)
Theorem c11_rebuild_walk : forall kids, forallb (wf_node voidElements html_ns) kids = true ->
  trebuild (walk_all voidElements html_ns kids) [] [] = Some (tnorm kids).
Proof. exact rebuild_walk. Qed.

(* the ElementTree walker's cursor arithmetic -- (element, key, parents, flag) cursors over the .text/.tail
   representation, getFirstChild / getNextSibling / getParentNode -- emits, for EVERY tree in that representation,
   exactly the recursive walk of it: start tag, the element's text, each child followed by its tail, end tag
   (ewalk_ref); from an element, and from a document or fragment root (whose own tags are suppressed) *)
Theorem c11_etree_cursor_walk_element : forall e fuel, (esize e <= fuel)%nat ->
  ewalk fuel false e = Some (ewalk_ref e).
Proof. exact ewalk_element. Qed.
Theorem c11_etree_cursor_walk_document : forall ns name a t kids fuel, (esize (EEl ns name a t kids) <= fuel)%nat ->
  ewalk fuel true (EEl ns name a t kids) = Some (text_tokens t ++ kids_ref kids).
Proof. exact ewalk_document. Qed.

(* ... and the .text/.tail representation of a tree walks like the tree: for EVERY tree in the form ElementTree can
   hold (no empty text node, no two adjacent text nodes: norm_ok), the ElementTree walker on its representation, with
   the fuel the entry points of the model supply, emits exactly the stream of the recursive walk of the tree -- which
   is what the DOM walker emits (c11_nrw_element_correct / c11_nrw_document_correct).  Hence: the etree and DOM walkers
   emit the same stream for the same document *)
Theorem c11_etree_walker_is_the_tree_walk : forall n, not_text n = true -> norm_ok n = true ->
  ewalk (4 * size n + 8) false (toE n) = Some (walk voidElements html_ns n).
Proof. exact etree_walker_element_model_fuel. Qed.
Theorem c11_etree_walker_is_the_document_walk : forall kids, adj_ok kids = true -> forallb norm_ok kids = true ->
  ewalk (4 * fsize kids + 8) true (toE (Elem None [] [] kids)) = Some (walk_all voidElements html_ns kids).
Proof. exact etree_walker_document_model_fuel. Qed.
Theorem c11_etree_and_dom_walkers_agree : forall kids, adj_ok kids = true -> forallb norm_ok kids = true ->
  ewalk (4 * fsize kids + 8) true (toE (Elem None [] [] kids)) = walk_doc_nrw (2 * fsize kids + 4) kids.
Proof. exact etree_and_dom_walkers_agree. Qed.

(* non-vacuity: <p>a <br><!--c-->b</p> walked from the element *)
Example c11_example :
  walk_node_nrw 20 (Elem None [112] [] [Text [97; 32]; Elem None [98; 114] [] []; Comm [99]; Text [98]]) =
  Some [TStart None [112] []; TChars [97]; TSpace [32]; TEmpty None [98; 114] []; TComment [99]; TChars [98];
        TEnd None [112]].
Proof. vm_compute. reflexivity. Qed.
