Require Extraction.
Require Import ExtrOcamlBasic.
From Verif.Model Require Import C19.
Definition run := run_c19.
Extraction "../build/ocaml/C19/m.ml" run.
