Require Extraction.
Require Import ExtrOcamlBasic.
From Verif.Model Require Import C13.
Definition run := run_c13.
Extraction "../build/ocaml/C13/m.ml" run.
