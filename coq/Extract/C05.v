Require Extraction.
Require Import ExtrOcamlBasic.
From Verif.Model Require Import C05.
Definition run := run_c05.
Extraction "../build/ocaml/C05/m.ml" run.
