Require Extraction.
Require Import ExtrOcamlBasic.
From Verif.Model Require Import C01.
Definition run := run_c01.
Extraction "../build/ocaml/C01/m.ml" run.
