Require Extraction.
Require Import ExtrOcamlBasic.
From Verif.Model Require Import C08.
Definition run := run_c08.
Extraction "../build/ocaml/C08/m.ml" run.
