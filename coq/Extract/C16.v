Require Extraction.
Require Import ExtrOcamlBasic.
From Verif.Model Require Import C16.
Definition run := run_c16.
Extraction "../build/ocaml/C16/m.ml" run.
