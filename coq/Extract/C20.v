Require Extraction.
Require Import ExtrOcamlBasic.
From Verif.Model Require Import C20.
Definition run := run_c20.
Extraction "../build/ocaml/C20/m.ml" run.
