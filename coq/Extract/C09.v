Require Extraction.
Require Import ExtrOcamlBasic.
From Verif.Model Require Import C09.
Definition run := run_c09.
Extraction "../build/ocaml/C09/m.ml" run.
