Require Extraction.
Require Import ExtrOcamlBasic.
From Verif.Model Require Import C12.
Definition run := run_c12.
Extraction "../build/ocaml/C12/m.ml" run.
