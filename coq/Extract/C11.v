Require Extraction.
Require Import ExtrOcamlBasic.
From Verif.Model Require Import C11.
Definition run := run_c11.
Extraction "../build/ocaml/C11/m.ml" run.
