Require Extraction.
Require Import ExtrOcamlBasic.
From Verif.Model Require Import C10.
Definition run := run_c10.
Extraction "../build/ocaml/C10/m.ml" run.
