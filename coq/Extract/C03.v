Require Extraction.
Require Import ExtrOcamlBasic.
From Verif.Model Require Import C03.
Definition run := run_c03.
Extraction "../build/ocaml/C03/m.ml" run.
