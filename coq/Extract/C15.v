Require Extraction.
Require Import ExtrOcamlBasic.
From Verif.Model Require Import C15.
Definition run := run_c15.
Extraction "../build/ocaml/C15/m.ml" run.
