Require Extraction.
Require Import ExtrOcamlBasic.
From Verif.Model Require Import C17.
Definition run := run_c17.
Extraction "../build/ocaml/C17/m.ml" run.
