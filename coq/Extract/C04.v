Require Extraction.
Require Import ExtrOcamlBasic.
From Verif.Model Require Import C04.
Definition run := run_c04.
Extraction "../build/ocaml/C04/m.ml" run.
