Require Extraction.
Require Import ExtrOcamlBasic.
From Verif.Model Require Import C18.
Definition run := run_c18.
Extraction "../build/ocaml/C18/m.ml" run.
