Require Extraction.
Require Import ExtrOcamlBasic.
From Verif.Model Require Import C14.
Definition run := run_c14.
Extraction "../build/ocaml/C14/m.ml" run.
