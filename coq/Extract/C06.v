Require Extraction.
Require Import ExtrOcamlBasic.
From Verif.Model Require Import C06.
Definition run := run_c06.
Extraction "../build/ocaml/C06/m.ml" run.
