Require Extraction.
Require Import ExtrOcamlBasic.
From Verif.Model Require Import C02.
Definition run := run_c02.
Extraction "../build/ocaml/C02/m.ml" run.
