Require Extraction.
Require Import ExtrOcamlBasic.
From Verif.Model Require Import C07.
Definition run := run_c07.
Extraction "../build/ocaml/C07/m.ml" run.
