(* Generic driver: one s-expression over non-negative integers per input line,
   converted to the extracted [sx] type, passed to [M.run], result printed in
   the same format.  No model logic lives here (trusted base: this file). *)
open M

let rec pos_of_int (i : int) : positive =
  if i = 1 then XH
  else if i land 1 = 1 then XI (pos_of_int (i lsr 1))
  else XO (pos_of_int (i lsr 1))
let n_of_int (i : int) : n = if i = 0 then N0 else Npos (pos_of_int i)
let rec int_of_pos (p : positive) : int =
  match p with XH -> 1 | XO q -> 2 * int_of_pos q | XI q -> 2 * int_of_pos q + 1
let int_of_n (x : n) : int = match x with N0 -> 0 | Npos p -> int_of_pos p

(* parser *)
let parse (s : Stdlib.String.t) : sx =
  let len = Stdlib.String.length s in
  let pos = ref 0 in
  let rec skip () = if !pos < len && (s.[!pos] = ' ' || s.[!pos] = '\t' || s.[!pos] = '\r') then (incr pos; skip ()) in
  let rec item () : sx =
    skip ();
    if !pos >= len then failwith "eof"
    else if s.[!pos] = '(' then begin
      incr pos;
      let acc = ref [] in
      let rec loop () =
        skip ();
        if !pos >= len then failwith "unclosed"
        else if s.[!pos] = ')' then incr pos
        else (acc := item () :: !acc; loop ()) in
      loop ();
      L (Stdlib.List.rev !acc)
    end else begin
      let st = !pos in
      while !pos < len && s.[!pos] >= '0' && s.[!pos] <= '9' do incr pos done;
      if !pos = st then failwith "bad char";
      A (n_of_int (int_of_string (Stdlib.String.sub s st (!pos - st))))
    end in
  item ()

let rec print (b : Buffer.t) (x : sx) : unit =
  match x with
  | A n -> Buffer.add_string b (string_of_int (int_of_n n))
  | L l ->
    Buffer.add_char b '(';
    Stdlib.List.iteri (fun i y -> if i > 0 then Buffer.add_char b ' '; print b y) l;
    Buffer.add_char b ')'

let () =
  let b = Buffer.create 65536 in
  (try
    while true do
      let line = input_line stdin in
      Buffer.clear b;
      (try print b (run (parse line)) with
       | Stack_overflow -> Buffer.clear b; Buffer.add_string b "!stack_overflow"
       | Failure m -> Buffer.clear b; Buffer.add_string b ("!failure " ^ m));
      print_string (Buffer.contents b);
      print_newline ()
    done
  with End_of_file -> ())
